//! OS conformance probe: replays the micro-experiments the simulated OS layer
//! relies on against the real kernel (loopback sockets, 50 ms timeouts) and
//! against the model, and compares the outcomes. A disagreement is a harness
//! error, never a verdict; no property check depends on this command.

use crate::tape::Tape;
use crate::world::{Cx, Proto, Server, SimBackend, TcpListen, World};
use gamedig::verif_hook::Backend;
use std::cell::RefCell;
use std::io::{Read, Write};
use std::net::{SocketAddr, TcpListener, TcpStream, UdpSocket};
use std::rc::Rc;
use std::time::Duration;

struct Echo {
    reply: Vec<u8>,
    close_after: bool,
}
impl Server for Echo {
    fn on_udp(&mut self, cx: &mut Cx, from: SocketAddr, _d: &[u8]) {
        let r = self.reply.clone();
        cx.udp_send(from, r);
    }

    fn on_tcp_data(&mut self, cx: &mut Cx, conn: usize, _d: &[u8]) {
        let r = self.reply.clone();
        cx.tcp_send(conn, r);
        if self.close_after {
            cx.tcp_fin(conn);
        }
    }

    fn as_any(&mut self) -> &mut dyn std::any::Any { self }
}

fn kind(e: &std::io::Error) -> String {
    match e.raw_os_error() {
        Some(97) => "EAFNOSUPPORT".to_string(),
        _ => format!("{:?}", e.kind()),
    }
}

fn model() -> (SimBackend, Rc<RefCell<World>>) {
    let w = Rc::new(RefCell::new(World::new(Tape::replay(Default::default()))));
    (SimBackend(w.clone()), w)
}

pub fn run() -> bool {
    let mut rows: Vec<(&str, String, String)> = Vec::new();
    let t50 = Some(Duration::from_millis(50));

    // 1. zero read timeout is rejected
    {
        let s = UdpSocket::bind("127.0.0.1:0").unwrap();
        let real = s.set_read_timeout(Some(Duration::ZERO)).err().map_or("ok".into(), |e| kind(&e));
        let (mut b, _) = model();
        let id = b.udp_bind("0.0.0.0:0".parse().unwrap()).unwrap();
        let m = b.set_read_timeout(id, Some(Duration::ZERO)).err().map_or("ok".into(), |e| kind(&e));
        rows.push(("set_read_timeout(Some(0))", real, m));
    }
    // 2. receive with nothing arriving times out with WouldBlock
    {
        let s = UdpSocket::bind("127.0.0.1:0").unwrap();
        s.set_read_timeout(t50).unwrap();
        let mut buf = [0u8; 16];
        let real = s.recv_from(&mut buf).err().map_or("ok".into(), |e| kind(&e));
        let (mut b, _) = model();
        let id = b.udp_bind("0.0.0.0:0".parse().unwrap()).unwrap();
        b.set_read_timeout(id, t50).unwrap();
        let m = b.udp_recv_from(id, &mut buf).err().map_or("ok".into(), |e| kind(&e));
        rows.push(("recv_from with nothing arriving", real, m));
    }
    // 3. a datagram longer than the buffer is truncated without an error; an empty datagram is delivered
    for (name, payload, buflen) in [("datagram longer than the buffer", vec![7u8; 100], 10usize), ("empty datagram", Vec::new(), 10)] {
        let server = UdpSocket::bind("127.0.0.1:0").unwrap();
        let addr = server.local_addr().unwrap();
        let client = UdpSocket::bind("0.0.0.0:0").unwrap();
        client.set_read_timeout(t50).unwrap();
        client.send_to(b"x", addr).unwrap();
        let mut b2 = [0u8; 8];
        let (_, from) = server.recv_from(&mut b2).unwrap();
        server.send_to(&payload, from).unwrap();
        let mut buf = vec![0u8; buflen];
        let real = match client.recv_from(&mut buf) {
            Ok((n, _)) => format!("ok {n}"),
            Err(e) => kind(&e),
        };
        let (mut b, w) = model();
        let saddr: SocketAddr = "192.0.2.1:9".parse().unwrap();
        w.borrow_mut().add_server(saddr, Proto::Udp, Box::new(Echo { reply: payload.clone(), close_after: false }));
        let id = b.udp_bind("0.0.0.0:0".parse().unwrap()).unwrap();
        b.set_read_timeout(id, t50).unwrap();
        b.udp_send_to(id, b"x", saddr).unwrap();
        let m = match b.udp_recv_from(id, &mut buf) {
            Ok((n, _)) => format!("ok {n}"),
            Err(e) => kind(&e),
        };
        rows.push((name, real, m));
    }
    // 4. an IPv4 socket cannot send to an IPv6 address
    {
        let s = UdpSocket::bind("0.0.0.0:0").unwrap();
        let real = s.send_to(b"x", "[::1]:9").err().map_or("ok".into(), |e| kind(&e));
        let (mut b, _) = model();
        let id = b.udp_bind("0.0.0.0:0".parse().unwrap()).unwrap();
        let m = b.udp_send_to(id, b"x", "[::1]:9".parse().unwrap()).err().map_or("ok".into(), |e| kind(&e));
        rows.push(("v4 socket sends to a v6 address", real, m));
    }
    // 5. connect to a port nobody listens on is refused; connect_timeout(0) is invalid input
    {
        let l = TcpListener::bind("127.0.0.1:0").unwrap();
        let addr = l.local_addr().unwrap();
        drop(l);
        let real = TcpStream::connect_timeout(&addr, Duration::from_millis(200)).err().map_or("ok".into(), |e| kind(&e));
        let (mut b, w) = model();
        let saddr: SocketAddr = "192.0.2.1:9".parse().unwrap();
        w.borrow_mut().add_tcp_listener_mode(saddr, TcpListen::Refuse);
        let m = b.tcp_connect(saddr, Some(Duration::from_millis(200))).err().map_or("ok".into(), |e| kind(&e));
        rows.push(("connect to a closed port", real, m));
        let real0 = TcpStream::connect_timeout(&addr, Duration::ZERO).err().map_or("ok".into(), |e| kind(&e));
        let m0 = b.tcp_connect(saddr, Some(Duration::ZERO)).err().map_or("ok".into(), |e| kind(&e));
        rows.push(("connect_timeout(0)", real0, m0));
    }
    // 6. read after the peer sent data and closed: the data, then Ok(0); read on a silent stream times out
    {
        let l = TcpListener::bind("127.0.0.1:0").unwrap();
        let addr = l.local_addr().unwrap();
        let h = std::thread::spawn(move || {
            let (mut s, _) = l.accept().unwrap();
            let mut b = [0u8; 4];
            let _ = s.read(&mut b);
            s.write_all(b"abc").unwrap();
        });
        let mut c = TcpStream::connect(addr).unwrap();
        c.set_read_timeout(t50).unwrap();
        c.write_all(b"x").unwrap();
        let mut all = Vec::new();
        let real = match c.read_to_end(&mut all) {
            Ok(n) => format!("ok {n}"),
            Err(e) => kind(&e),
        };
        h.join().unwrap();
        let (mut b, w) = model();
        let saddr: SocketAddr = "192.0.2.1:9".parse().unwrap();
        w.borrow_mut().add_server(saddr, Proto::Tcp, Box::new(Echo { reply: b"abc".to_vec(), close_after: true }));
        let id = b.tcp_connect(saddr, None).unwrap();
        b.set_read_timeout(id, t50).unwrap();
        b.tcp_write(id, b"x").unwrap();
        let mut total = 0;
        let mut buf = [0u8; 32];
        let m = loop {
            match b.tcp_read(id, &mut buf) {
                Ok(0) => break format!("ok {total}"),
                Ok(n) => total += n,
                Err(e) => break kind(&e),
            }
        };
        rows.push(("read_to_end after data + FIN", real, m));
    }
    {
        let l = TcpListener::bind("127.0.0.1:0").unwrap();
        let addr = l.local_addr().unwrap();
        let h = std::thread::spawn(move || {
            let (s, _) = l.accept().unwrap();
            std::thread::sleep(Duration::from_millis(150));
            drop(s);
        });
        let mut c = TcpStream::connect(addr).unwrap();
        c.set_read_timeout(t50).unwrap();
        let mut buf = [0u8; 8];
        let real = c.read(&mut buf).err().map_or("ok".into(), |e| kind(&e));
        h.join().unwrap();
        let (mut b, w) = model();
        let saddr: SocketAddr = "192.0.2.1:9".parse().unwrap();
        w.borrow_mut().add_server(saddr, Proto::Tcp, Box::new(Echo { reply: Vec::new(), close_after: false }));
        let id = b.tcp_connect(saddr, None).unwrap();
        b.set_read_timeout(id, t50).unwrap();
        let m = b.tcp_read(id, &mut buf).err().map_or("ok".into(), |e| kind(&e));
        rows.push(("read on a silent stream", real, m));
    }
    let mut ok = true;
    for (name, real, m) in &rows {
        let same = real == m;
        ok &= same;
        println!("{:<44} kernel={:<18} model={:<18} {}", name, real, m, if same { "agree" } else { "DISAGREE" });
    }
    println!("os-conformance: {} experiments, {}", rows.len(), if ok { "all agree" } else { "DISAGREEMENT" });
    ok
}

//! `std::thread::sleep` behind the simulator's clock.
//!
//! Nothing in gamedig sleeps today, but a real sleep would be time the simulator does not see
//! (and wall-clock time the checks would really wait). The executable therefore defines
//! `clock_nanosleep`, the libc function `std::thread::sleep` ends in; the static linker binds std's
//! reference to this definition. While a simulated run is active on the calling thread the sleep
//! becomes virtual time in that run's world; otherwise (the runner's own polling, the worker
//! between runs) it is passed on to the kernel.

use crate::world::World;
use std::cell::RefCell;
use std::rc::Rc;

thread_local! {
    static WORLD: RefCell<Option<Rc<RefCell<World>>>> = const { RefCell::new(None) };
}

/// Route this thread's sleeps into `w` (or back to the kernel with `None`).
pub fn set_world(w: Option<Rc<RefCell<World>>>) { WORLD.with(|c| *c.borrow_mut() = w); }

/// # Safety
/// Same contract as libc's `clock_nanosleep`.
#[no_mangle]
pub unsafe extern "C" fn clock_nanosleep(clock_id: libc::clockid_t, flags: libc::c_int, req: *const libc::timespec, rem: *mut libc::timespec) -> libc::c_int {
    let relative = flags & libc::TIMER_ABSTIME == 0;
    if relative && !req.is_null() {
        let world = WORLD.try_with(|c| c.borrow().clone()).ok().flatten();
        if let Some(rc) = world {
            let ts = *req;
            let ns = (ts.tv_sec.max(0) as u64).saturating_mul(1_000_000_000).saturating_add(ts.tv_nsec.max(0) as u64);
            if let Ok(mut w) = rc.try_borrow_mut() {
                let _g = crate::alloc::InHarness::enter();
                w.client_sleep(ns);
                return 0;
            }
        }
    }
    // the kernel's: returns the error number, not -1
    let r = libc::syscall(libc::SYS_clock_nanosleep, clock_id, flags, req, rem);
    if r == -1 {
        *libc::__errno_location()
    } else {
        0
    }
}

//! gdsim — deterministic simulation with fault injection for rust-gamedig.
//!
//! gdsim run --prop C01 --tier quick|thorough [--seed N] [--workers N] [--limit N]
//! gdsim replay <file>
//! gdsim selftest --prop C01 [--n N]
//! (internal) gdsim worker ... / gdsim replay-inner ...


use gdsim::prop::Tier;
use gdsim::{alloc, props, runner};
use std::path::PathBuf;

#[global_allocator]
static GLOBAL: alloc::Counting = alloc::Counting;

fn arg_val(args: &[String], name: &str) -> Option<String> {
    args.iter()
        .position(|a| a == name)
        .and_then(|i| args.get(i + 1).cloned())
}

fn harness_error(msg: &str) -> ! {
    eprintln!("HARNESS-ERROR {msg}");
    std::process::exit(2);
}

fn main() {
    let args: Vec<String> = std::env::args().collect();
    let cmd = args.get(1).map(String::as_str).unwrap_or("");
    let seed: u64 = arg_val(&args, "--seed")
        .or_else(|| std::env::var("VERIF_SEED").ok())
        .and_then(|s| s.parse().ok())
        .unwrap_or(1);
    let tier = match arg_val(&args, "--tier").as_deref() {
        Some("thorough") => Tier::Thorough,
        _ => Tier::Quick,
    };
    let workers: usize = arg_val(&args, "--workers")
        .and_then(|s| s.parse().ok())
        .unwrap_or_else(|| std::thread::available_parallelism().map_or(8, |n| n.get()).min(16));
    let get_prop = || {
        let id = arg_val(&args, "--prop").unwrap_or_else(|| harness_error("--prop missing"));
        props::find(&id).unwrap_or_else(|| harness_error(&format!("unknown property {id}")))
    };
    match cmd {
        "run" => {
            let prop = get_prop();
            println!("VERIF_SEED={seed} property={} tier={}", prop.id(), tier.name());
            let limit = arg_val(&args, "--limit").and_then(|s| s.parse().ok());
            let mut selftest = None;
            let mut selftest_ok = true;
            if !args.iter().any(|a| a == "--no-selftest") {
                let n = match tier {
                    Tier::Quick => 300,
                    Tier::Thorough => 3000,
                };
                let (v, ok) = runner::selftest(prop.as_ref(), tier, seed, n.min(prop.cases(tier)), workers);
                selftest_ok = ok;
                selftest = Some(v);
            }
            let a = runner::RunArgs {
                tier,
                seed,
                workers,
                hashes: false,
                limit,
                workdir: None,
                write_evidence: limit.is_none() || args.iter().any(|a| a == "--evidence"),
            };
            let st = selftest.clone();
            let mut code = runner::check(prop.as_ref(), &a, selftest);
            if !selftest_ok {
                // a violation found by the run stands; a clean run is not believed without determinism
                eprintln!("HARNESS-ERROR determinism self-test failed: {}", st.unwrap_or_default());
                if code == 0 {
                    code = 2;
                }
            }
            std::process::exit(code);
        }
        "selftest" => {
            let prop = get_prop();
            let n = arg_val(&args, "--n").and_then(|s| s.parse().ok()).unwrap_or(2000u64);
            let (v, ok) = runner::selftest(prop.as_ref(), tier, seed, n.min(prop.cases(tier)), workers);
            println!("{v}");
            std::process::exit(if ok { 0 } else { 2 });
        }
        "worker" => {
            let prop = get_prop();
            let a = runner::WorkerArgs {
                tier,
                seed,
                from: arg_val(&args, "--from").and_then(|s| s.parse().ok()).unwrap_or(0),
                to: arg_val(&args, "--to").and_then(|s| s.parse().ok()).unwrap_or(0),
                skip: arg_val(&args, "--skip")
                    .map(|s| s.split(',').filter_map(|x| x.parse().ok()).collect())
                    .unwrap_or_default(),
                out: PathBuf::from(arg_val(&args, "--out").unwrap_or_else(|| harness_error("--out missing"))),
                hashes: args.iter().any(|a| a == "--hashes"),
                samples: arg_val(&args, "--samples").and_then(|s| s.parse().ok()).unwrap_or(0),
            };
            std::process::exit(runner::worker(prop.as_ref(), &a));
        }
        "replay" => {
            let path = PathBuf::from(args.get(2).cloned().unwrap_or_else(|| harness_error("replay file missing")));
            let rec: runner::ViolationRecord = serde_json::from_slice(
                &std::fs::read(&path).unwrap_or_else(|e| harness_error(&format!("cannot read {}: {e}", path.display()))),
            )
            .unwrap_or_else(|e| harness_error(&format!("bad replay file: {e}")));
            let (sigs, stdout) = runner::replay_in_child(&path);
            print!("{stdout}");
            if sigs.iter().any(|s| *s == rec.signature) {
                println!("VIOLATION property={} replay={}", rec.property, path.display());
                println!("  reproduced signature: {}", rec.signature);
                std::process::exit(1);
            }
            println!("replay of {} did not reproduce {} (saw {:?})", path.display(), rec.signature, sigs);
            std::process::exit(0);
        }
        "replay-inner" => {
            let path = PathBuf::from(args.get(2).cloned().unwrap_or_else(|| harness_error("replay file missing")));
            let rec: runner::ViolationRecord =
                serde_json::from_slice(&std::fs::read(&path).unwrap_or_else(|e| harness_error(&e.to_string())))
                    .unwrap_or_else(|e| harness_error(&e.to_string()));
            let prop = props::find(&rec.property).unwrap_or_else(|| harness_error("unknown property in replay file"));
            let out = PathBuf::from(arg_val(&args, "--out").unwrap_or_else(|| "/verif/work/replay".to_string()));
            std::process::exit(runner::replay_inner(prop.as_ref(), &rec, &out));
        }
        "os-conformance" => {
            std::process::exit(if gdsim::osprobe::run() { 0 } else { 2 });
        }
        "http-probe" => {
            // hand-made HTTP exchanges against the real HTTP client, with the allocator figures
            use gdsim::entry::{Call, Entry};
            use gdsim::models::misc::{EcoState, HttpFraming, HttpTcpServer};
            use gdsim::tape::Tape;
            use gdsim::world::{Proto, World};
            let ip: std::net::IpAddr = "192.0.2.10".parse().unwrap();
            let which = args.get(2).map(String::as_str).unwrap_or("plain");
            let mut t = Tape::replay(Default::default());
            let st = EcoState::generate(&mut t);
            let mut srv = HttpTcpServer::new(st.body(), HttpFraming::ContentLength);
            match which {
                "lying-length" => {
                    srv.framing = HttpFraming::UntilClose;
                    srv.headers.push(("Content-Length".into(), "1073741824".into()));
                }
                "gzip" => srv.gzip = true,
                "gzip-bomb" => {
                    srv.body = gdsim::hostile::gzip_bomb(70 << 20);
                    srv.headers.push(("Content-Encoding".into(), "gzip".into()));
                }
                "chunked" => srv.framing = HttpFraming::Chunked(vec![10, 100]),
                _ => {}
            }
            let mut w = World::new(t);
            w.add_server(std::net::SocketAddr::new(ip, 3001), Proto::Tcp, Box::new(srv));
            let call = Call { entry: Entry::Eco { level: 0 }, ip, port: None, default_port: 3001, timeout: None };
            let run = gdsim::harness::run_call(w, &call);
            for l in run.world.render_history(40) {
                println!("{}", &l[.. l.len().min(200)]);
            }
            println!("result: {}", gdsim::props::describe_result(&run.result, &run.crash).chars().take(300).collect::<String>());
            println!("peak_live={} largest={} allocations={}", run.alloc.peak_live, run.alloc.largest, run.alloc.count);
        }
        "sleep-probe" => {
            // a client that sleeps for an hour: the hour passes in the world, not on the wall
            let t0 = std::time::Instant::now();
            let w = gdsim::world::World::new(gdsim::tape::Tape::replay(Default::default()));
            let (_, _, w, _) = gdsim::harness::run_in_world(w, || std::thread::sleep(std::time::Duration::from_secs(3600)));
            let wall_inside = t0.elapsed();
            let t1 = std::time::Instant::now();
            std::thread::sleep(std::time::Duration::from_millis(50));
            println!("inside a run: virtual clock advanced by {} s, wall {:?}; outside a run: a 50 ms sleep took {:?}", w.now / 1_000_000_000, wall_inside, t1.elapsed());
            std::process::exit(if w.now == 3_600_000_000_000 && wall_inside.as_millis() < 1000 && t1.elapsed().as_millis() >= 50 { 0 } else { 2 });
        }
        "dump-ports" => {
            // snapshot of the definitions table's default ports (golden data, committed)
            let mut m = std::collections::BTreeMap::new();
            for (id, g) in gamedig::GAMES.entries() {
                m.insert(id.to_string(), g.default_port);
            }
            println!("{}", serde_json::to_string_pretty(&m).unwrap());
        }
        "list" => {
            for p in props::all() {
                println!("{} {} quick={} thorough={}", p.id(), p.level(), p.cases(Tier::Quick), p.cases(Tier::Thorough));
            }
        }
        _ => harness_error("usage: gdsim run|replay|selftest|list ..."),
    }
}

//! Interface between property checks and the runner.

use crate::tape::Tape;
use crate::world::World;
use serde::{Deserialize, Serialize};
use serde_json::Value;
use std::collections::BTreeMap;

#[derive(Clone, Copy, Debug, PartialEq, Eq)]
pub enum Tier {
    Quick,
    Thorough,
}

impl Tier {
    pub fn name(self) -> &'static str {
        match self {
            Tier::Quick => "quick",
            Tier::Thorough => "thorough",
        }
    }
}

#[derive(Clone, Debug, Serialize, Deserialize)]
pub struct Violation {
    pub signature: String,
    pub what: String,
    pub expected: String,
    pub observed: String,
}

impl Violation {
    pub fn new(signature: impl Into<String>, what: impl Into<String>, expected: impl Into<String>, observed: impl Into<String>) -> Self {
        Self {
            signature: signature.into(),
            what: what.into(),
            expected: expected.into(),
            observed: observed.into(),
        }
    }
}

#[derive(Default)]
pub struct CaseOut {
    pub violations: Vec<Violation>,
    pub skipped: Option<&'static str>,
    /// simulated runs (worlds executed) inside this case
    pub runs: u64,
    pub sim_ns: u64,
    pub faults: BTreeMap<&'static str, u64>,
    pub probes: BTreeMap<&'static str, u64>,
    /// event-order signatures of the runs of this case
    pub interleavings: Vec<u64>,
    /// hash of every event log of this case, for the determinism self-test
    pub log_hash: u64,
    /// the client parsed at least one server reply / the case exercised the property
    pub nontrivial: bool,
    /// identity of the case for "distinct" counting
    pub distinct_key: u64,
    /// only filled when `detail` is requested
    pub sample: Option<Value>,
    pub schedule: Vec<String>,
}

impl CaseOut {
    /// Fold the statistics of one finished world into the case.
    pub fn absorb(&mut self, w: &World) {
        self.runs += 1;
        self.sim_ns = self.sim_ns.saturating_add(w.now);
        for (k, v) in &w.stats.faults {
            *self.faults.entry(k).or_insert(0) += v;
        }
        for (k, v) in &w.stats.probes {
            *self.probes.entry(k).or_insert(0) += v;
        }
        self.interleavings.push(w.interleaving_hash());
        let mut f = crate::rng::Fnv(self.log_hash ^ 0x9e37_79b9);
        f.u64(w.log_hash());
        self.log_hash = f.0;
        if w.stats.udp_recvs > 0 || w.hist.iter().any(|h| matches!(h, crate::world::Hist::TcpRead { len, .. } if *len > 0)) {
            self.nontrivial = true;
        }
    }

    pub fn probe(&mut self, k: &'static str) { *self.probes.entry(k).or_insert(0) += 1; }

    pub fn fault(&mut self, k: &'static str) { *self.faults.entry(k).or_insert(0) += 1; }

    pub fn violate(&mut self, v: Violation) {
        if !self.violations.iter().any(|x| x.signature == v.signature) {
            self.violations.push(v);
        }
    }
}

pub trait Prop: Sync {
    fn id(&self) -> &'static str;
    /// `exploration` or `fault_enumeration`
    fn level(&self) -> &'static str;
    fn cases(&self, tier: Tier) -> u64;
    /// True if `cases(tier)` enumerates a finite space completely.
    fn exhaustive(&self, _tier: Tier) -> bool { false }
    fn run_case(&self, idx: u64, tape: Tape, detail: bool) -> (CaseOut, Tape);
    fn rule(&self) -> String;
    fn assumptions(&self) -> Vec<String>;
    /// Probes that must be non-zero in a thorough run (else exit 2).
    fn required_probes(&self) -> Vec<&'static str> { Vec::new() }
    fn components(&self) -> Value;
}

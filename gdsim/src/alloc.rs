//! Counting global allocator. Counts only while a measurement window is open
//! and the thread is executing client (gamedig) code, i.e. not inside the
//! simulator backend. A single request above `HARD_CAP` is not served: the
//! size is written to the progress file descriptor and the process aborts
//! (touching multi-GiB zeroed buffers on 16 workers would exhaust the machine).

use std::alloc::{GlobalAlloc, Layout, System};
use std::cell::Cell;
use std::sync::atomic::{AtomicI32, Ordering};

pub const HARD_CAP: usize = 256 << 20;

pub struct Counting;

thread_local! {
    static ACTIVE: Cell<bool> = const { Cell::new(false) };
    static HARNESS_DEPTH: Cell<u32> = const { Cell::new(0) };
    static LIVE: Cell<i64> = const { Cell::new(0) };
    static PEAK: Cell<i64> = const { Cell::new(0) };
    static LARGEST: Cell<usize> = const { Cell::new(0) };
    static COUNT: Cell<u64> = const { Cell::new(0) };
}

/// File descriptor to which a fatal allocation is reported (set by the worker).
pub static REPORT_FD: AtomicI32 = AtomicI32::new(-1);

#[derive(Clone, Copy, Debug, Default)]
pub struct AllocStats {
    pub peak_live: u64,
    pub largest: u64,
    pub count: u64,
}

pub fn begin() {
    LIVE.with(|c| c.set(0));
    PEAK.with(|c| c.set(0));
    LARGEST.with(|c| c.set(0));
    COUNT.with(|c| c.set(0));
    ACTIVE.with(|c| c.set(true));
}

pub fn end() -> AllocStats {
    ACTIVE.with(|c| c.set(false));
    AllocStats {
        peak_live: PEAK.with(Cell::get).max(0) as u64,
        largest: LARGEST.with(Cell::get) as u64,
        count: COUNT.with(Cell::get),
    }
}

/// RAII marker: allocations made while it lives belong to the harness.
pub struct InHarness;
impl InHarness {
    pub fn enter() -> Self {
        let _ = HARNESS_DEPTH.try_with(|c| c.set(c.get() + 1));
        Self
    }
}
impl Drop for InHarness {
    fn drop(&mut self) { let _ = HARNESS_DEPTH.try_with(|c| c.set(c.get().saturating_sub(1))); }
}

#[inline]
fn counting() -> bool {
    ACTIVE.try_with(Cell::get).unwrap_or(false) && HARNESS_DEPTH.try_with(Cell::get).unwrap_or(1) == 0
}

fn fatal(size: usize) -> ! {
    let fd = REPORT_FD.load(Ordering::Relaxed);
    let mut buf = [0u8; 320];
    let msg = b"HUGE_ALLOC ";
    let mut n = 0;
    for b in msg {
        buf[n] = *b;
        n += 1;
    }
    // decimal without allocating
    let mut digits = [0u8; 24];
    let mut d = 0;
    let mut v = size;
    if v == 0 {
        digits[0] = b'0';
        d = 1;
    }
    while v > 0 {
        digits[d] = b'0' + (v % 10) as u8;
        v /= 10;
        d += 1;
    }
    while d > 0 {
        d -= 1;
        buf[n] = digits[d];
        n += 1;
    }
    // Best effort: name the requesting gamedig function. Nested allocations made while
    // capturing the backtrace are small and are served normally.
    static IN_FATAL: std::sync::atomic::AtomicBool = std::sync::atomic::AtomicBool::new(false);
    if !IN_FATAL.swap(true, Ordering::SeqCst) {
        let _ = ACTIVE.try_with(|c| c.set(false));
        let bt = std::backtrace::Backtrace::force_capture().to_string();
        let func = crate::harness::innermost_gamedig_frame(&bt);
        if std::env::var_os("GDSIM_DEBUG_BT").is_some() {
            eprintln!("{bt}");
        }
        buf[n] = b' ';
        n += 1;
        for b in func.bytes().take(200) {
            if n + 2 >= buf.len() {
                break;
            }
            buf[n] = if b == b' ' { b'_' } else { b };
            n += 1;
        }
    }
    buf[n] = b'\n';
    n += 1;
    unsafe {
        if fd >= 0 {
            libc::write(fd, buf.as_ptr() as *const libc::c_void, n);
        }
        libc::write(2, buf.as_ptr() as *const libc::c_void, n);
        libc::abort();
    }
}

#[inline]
fn on_alloc(size: usize) {
    if size > HARD_CAP {
        fatal(size);
    }
    if counting() {
        let _ = LIVE.try_with(|l| {
            let v = l.get() + size as i64;
            l.set(v);
            let _ = PEAK.try_with(|p| {
                if v > p.get() {
                    p.set(v)
                }
            });
        });
        let _ = LARGEST.try_with(|c| {
            if size > c.get() {
                c.set(size)
            }
        });
        let _ = COUNT.try_with(|c| c.set(c.get() + 1));
    }
}

#[inline]
fn on_free(size: usize) {
    if counting() {
        let _ = LIVE.try_with(|l| l.set((l.get() - size as i64).max(0)));
    }
}

unsafe impl GlobalAlloc for Counting {
    unsafe fn alloc(&self, layout: Layout) -> *mut u8 {
        on_alloc(layout.size());
        System.alloc(layout)
    }

    unsafe fn alloc_zeroed(&self, layout: Layout) -> *mut u8 {
        on_alloc(layout.size());
        System.alloc_zeroed(layout)
    }

    unsafe fn dealloc(&self, ptr: *mut u8, layout: Layout) {
        on_free(layout.size());
        System.dealloc(ptr, layout)
    }

    unsafe fn realloc(&self, ptr: *mut u8, layout: Layout, new_size: usize) -> *mut u8 {
        if new_size > layout.size() {
            on_alloc(new_size - layout.size());
            // `largest` should see the whole new block
            if counting() {
                let _ = LARGEST.try_with(|c| {
                    if new_size > c.get() {
                        c.set(new_size)
                    }
                });
            }
            if new_size > HARD_CAP {
                fatal(new_size);
            }
        } else {
            on_free(layout.size() - new_size);
        }
        System.realloc(ptr, layout, new_size)
    }
}

//! Discrete-event world: virtual clock, simulated OS socket layer, simulated
//! network, server nodes, history. Single-threaded; the real client code is
//! ordinary blocking code, so control is inverted: when the client blocks in
//! `recv_from` / `read` / `connect`, the backend runs the event loop until
//! something is deliverable to that socket or its deadline is next.

use crate::rng::Fnv;
use crate::tape::{self, Tape};
use gamedig::verif_hook::Backend;
use std::cell::RefCell;
use std::cmp::Reverse;
use std::collections::{BTreeMap, BinaryHeap, VecDeque};
use std::io;
use std::net::{IpAddr, Ipv4Addr, SocketAddr};
use std::rc::Rc;
use std::time::Duration;

pub const CLIENT_IP: Ipv4Addr = Ipv4Addr::new(10, 0, 0, 1);
pub const MS: u64 = 1_000_000;
pub const SEC: u64 = 1_000_000_000;

/// Panic payloads used by the simulator itself (never by gamedig).
pub const SIM_OP_BUDGET: &str = "GDSIM:op-budget-exhausted";
pub const SIM_BLOCKED: &str = "GDSIM:blocked-forever";

#[derive(Clone, Copy, Debug, PartialEq, Eq, Hash, PartialOrd, Ord)]
pub enum Proto {
    Udp,
    Tcp,
}

/// What a TCP listener address does with a SYN when no server is present or
/// by configuration.
#[derive(Clone, Copy, Debug, PartialEq, Eq)]
pub enum TcpListen {
    Accept,
    Refuse,
    BlackHole,
}

pub trait Server {
    fn on_udp(&mut self, _cx: &mut Cx, _from: SocketAddr, _data: &[u8]) {}
    fn on_tcp_connect(&mut self, _cx: &mut Cx, _conn: usize) {}
    fn on_tcp_data(&mut self, _cx: &mut Cx, _conn: usize, _data: &[u8]) {}
    fn on_tcp_fin(&mut self, _cx: &mut Cx, _conn: usize) {}
    fn on_timer(&mut self, _cx: &mut Cx, _token: u64) {}
    /// Downcast support so that oracles can read server-side counters.
    fn as_any(&mut self) -> &mut dyn std::any::Any;
}

pub trait HttpHandler {
    fn serve(&mut self, world: &mut World, method: &str, url: &str, headers: &[(String, String)])
        -> io::Result<Vec<u8>>;
}

pub struct ServerSlot {
    pub addr: SocketAddr,
    pub proto: Proto,
    pub listen: TcpListen,
    pub handler: Option<Box<dyn Server>>,
}

#[derive(Clone, Debug, Default)]
pub struct NetCfg {
    /// base one-way latency and jitter (ns)
    pub min_latency: u64,
    pub jitter: u64,
    /// keep per-direction FIFO order (no reordering from jitter)
    pub fifo: bool,
    pub drop_ppm: u64,
    pub dup_ppm: u64,
    /// extra delay of up to `big_delay` ns
    pub delay_ppm: u64,
    pub big_delay: u64,
    pub flip_ppm: u64,
    pub foreign_src_ppm: u64,
    /// every datagram of the server side leaves from this port instead of the port the server listens on
    /// (a server that answers from another socket: legal for UDP, the client must keep sending to the
    /// port it was given); 0 = off
    pub reply_from_port: u16,
    /// (n, extra): the n-th datagram (from 0) the server side puts on the network is delivered a second
    /// time, `extra` ns after its first arrival - a late duplicate that lands in a later step of the exchange
    pub late_dup: Option<(u64, u64)>,
    /// datagrams the server side has put on the network so far (counter for `late_dup`)
    pub udp_replies_seen: u64,
    /// segment server->client TCP data into several arrivals
    pub tcp_segment_ppm: u64,
    /// the server side falls silent after this many datagrams reached the network
    pub udp_reply_budget: Option<u64>,
    /// the server side stalls after this many stream bytes (further data and FIN are lost)
    pub tcp_byte_budget: Option<u64>,
    /// the FIN of the server never arrives (stall at end of stream)
    pub drop_fin: bool,
}

impl NetCfg {
    pub fn clean() -> Self {
        Self {
            min_latency: 100_000,
            jitter: 0,
            fifo: true,
            ..Default::default()
        }
    }
}

#[derive(Default)]
pub struct OsCfg {
    /// any socket call may fail with an arbitrary io::Error
    pub io_error_ppm: u64,
    /// TCP write may be short
    pub short_write_ppm: u64,
    /// `send` fails for the n-th (0-based) udp send / tcp write, exactly
    pub fail_send_at: Vec<u64>,
    /// recognises the transmissions that start an attempt of the request unit under test
    pub unit_matcher: Option<Rc<dyn Fn(&[u8]) -> bool>>,
    /// how many such transmissions the client made
    pub unit_sends_seen: u64,
    /// which of them (0-based) must fail with an io::Error
    pub fail_unit_sends: Vec<u64>,
}

#[derive(Clone, Debug)]
pub enum Hist {
    UdpBind { t: u64, sock: u64, local: SocketAddr },
    UdpSend { t: u64, sock: u64, to: SocketAddr, data: Vec<u8>, ok: bool },
    UdpRecv { t: u64, sock: u64, from: SocketAddr, len: usize, full_len: usize, waited: u64 },
    RecvTimeout { t: u64, sock: u64, waited: u64, timeout: Option<u64> },
    TcpConnect { t: u64, sock: u64, to: SocketAddr, timeout: Option<u64>, result: &'static str, waited: u64 },
    TcpWrite { t: u64, sock: u64, data: Vec<u8>, accepted: usize, ok: bool },
    TcpRead { t: u64, sock: u64, len: usize, waited: u64, eof: bool },
    SetTimeout { t: u64, sock: u64, read: bool, value: Option<u64>, ok: bool },
    Close { t: u64, sock: u64 },
    IoFault { t: u64, call: &'static str, kind: &'static str },
    Net { t: u64, what: &'static str, to_client: bool, len: usize },
    ServerRx { t: u64, server: usize, proto: Proto, from: SocketAddr, data: Vec<u8> },
    ServerTx { t: u64, server: usize, proto: Proto, len: usize, data: Vec<u8> },
    Http { t: u64, method: String, url: String, headers: Vec<(String, String)> },
    /// the client put its thread to sleep (no code under test does today): virtual time passes
    Sleep { t: u64, ns: u64 },
}

enum Ev {
    ToClientUdp { sock: u64, from: SocketAddr, data: Vec<u8> },
    ToServerUdp { server: usize, from: SocketAddr, data: Vec<u8> },
    ToClientTcp { sock: u64, kind: TcpSeg },
    ToServerTcp { conn: usize, kind: TcpSeg },
    Timer { server: usize, token: u64 },
}

enum TcpSeg {
    Data(Vec<u8>),
    Fin,
    Rst,
}

struct Queued {
    at: u64,
    seq: u64,
    ev: Ev,
}
impl PartialEq for Queued {
    fn eq(&self, o: &Self) -> bool { self.at == o.at && self.seq == o.seq }
}
impl Eq for Queued {}
impl PartialOrd for Queued {
    fn partial_cmp(&self, o: &Self) -> Option<std::cmp::Ordering> { Some(self.cmp(o)) }
}
impl Ord for Queued {
    fn cmp(&self, o: &Self) -> std::cmp::Ordering { (self.at, self.seq).cmp(&(o.at, o.seq)) }
}

pub enum SockKind {
    Udp {
        local: SocketAddr,
        inbox: VecDeque<(SocketAddr, Vec<u8>)>,
    },
    Tcp {
        conn: usize,
        rx: VecDeque<u8>,
        fin: bool,
        rst: bool,
        peer_closed_writes: u32,
    },
}

pub struct Sock {
    pub kind: SockKind,
    pub read_timeout: Option<u64>,
    pub write_timeout: Option<u64>,
    pub read_timeout_set: bool,
    pub write_timeout_set: bool,
    pub closed: bool,
}

pub struct Conn {
    pub server: usize,
    pub sock: u64,
    pub client_addr: SocketAddr,
    pub server_closed: bool,
    pub client_closed: bool,
    last_to_client: u64,
    last_to_server: u64,
}

#[derive(Clone, Debug, Default)]
pub struct Stats {
    pub faults: BTreeMap<&'static str, u64>,
    pub probes: BTreeMap<&'static str, u64>,
    pub client_ops: u64,
    pub events: u64,
    pub udp_sends: u64,
    pub udp_recvs: u64,
    pub tcp_writes: u64,
    pub recv_timeouts: u64,
    pub replies_parsed: u64,
}

impl Stats {
    pub fn fault(&mut self, k: &'static str) { *self.faults.entry(k).or_insert(0) += 1; }

    pub fn probe(&mut self, k: &'static str) { *self.probes.entry(k).or_insert(0) += 1; }
}

pub struct World {
    pub now: u64,
    seq: u64,
    queue: BinaryHeap<Reverse<Queued>>,
    pub socks: Vec<Sock>,
    pub servers: Vec<ServerSlot>,
    pub conns: Vec<Conn>,
    pub hist: Vec<Hist>,
    pub tape: Tape,
    pub net: NetCfg,
    pub os: OsCfg,
    pub stats: Stats,
    pub op_budget: u64,
    pub eof_read_budget: u64,
    pub http: Option<Box<dyn HttpHandler>>,
    send_counter: u64,
    last_udp_to_client: u64,
    last_udp_to_server: u64,
    next_port: u16,
    /// set when the client blocked without timeout and nothing was pending
    pub blocked_forever: bool,
    /// (address the client uses, simulated host it reaches)
    pub ip_alias: Vec<(IpAddr, IpAddr)>,
}

pub struct Cx<'a> {
    pub w: &'a mut World,
    pub me: usize,
}

impl<'a> Cx<'a> {
    pub fn now(&self) -> u64 { self.w.now }

    pub fn my_addr(&self) -> SocketAddr { self.w.servers[self.me].addr }

    /// Send a datagram from this server to `to` through the simulated network.
    pub fn udp_send(&mut self, to: SocketAddr, data: Vec<u8>) { self.udp_send_after(to, data, 0); }

    /// Same, with an additional server-side delay (used to realise arrival
    /// orders exactly).
    pub fn udp_send_after(&mut self, to: SocketAddr, data: Vec<u8>, extra: u64) {
        let from = self.my_addr();
        let me = self.me;
        self.w.hist.push(Hist::ServerTx {
            t: self.w.now,
            server: me,
            proto: Proto::Udp,
            len: data.len(),
            data: data.clone(),
        });
        self.w.net_udp_to_client(from, to, data, extra);
    }

    pub fn tcp_send(&mut self, conn: usize, data: Vec<u8>) {
        let me = self.me;
        self.w.hist.push(Hist::ServerTx {
            t: self.w.now,
            server: me,
            proto: Proto::Tcp,
            len: data.len(),
            data: data.clone(),
        });
        self.w.net_tcp_to_client(conn, TcpSeg::Data(data));
    }

    pub fn tcp_fin(&mut self, conn: usize) {
        if !self.w.conns[conn].server_closed {
            self.w.conns[conn].server_closed = true;
            self.w.net_tcp_to_client(conn, TcpSeg::Fin);
        }
    }

    pub fn tcp_rst(&mut self, conn: usize) {
        self.w.conns[conn].server_closed = true;
        self.w.net_tcp_to_client(conn, TcpSeg::Rst);
    }

    pub fn timer(&mut self, after: u64, token: u64) {
        let me = self.me;
        let at = self.w.now.saturating_add(after);
        self.w.push(at, Ev::Timer { server: me, token });
    }

    pub fn draw(&mut self, bound: u64) -> u64 { self.w.tape.draw(tape::DATA, bound) }
}

impl World {
    pub fn new(tape: Tape) -> Self {
        Self {
            now: 0,
            seq: 0,
            queue: BinaryHeap::new(),
            socks: Vec::new(),
            servers: Vec::new(),
            conns: Vec::new(),
            hist: Vec::new(),
            tape,
            net: NetCfg::clean(),
            os: OsCfg::default(),
            stats: Stats::default(),
            op_budget: 50_000,
            eof_read_budget: 40_000_000,
            http: None,
            send_counter: 0,
            last_udp_to_client: 0,
            last_udp_to_server: 0,
            next_port: 40_000,
            blocked_forever: false,
            ip_alias: Vec::new(),
        }
    }

    pub fn add_server(&mut self, addr: SocketAddr, proto: Proto, handler: Box<dyn Server>) -> usize {
        self.servers.push(ServerSlot {
            addr,
            proto,
            listen: TcpListen::Accept,
            handler: Some(handler),
        });
        self.servers.len() - 1
    }

    /// A TCP address that refuses or black-holes connections.
    pub fn add_tcp_listener_mode(&mut self, addr: SocketAddr, mode: TcpListen) -> usize {
        self.servers.push(ServerSlot {
            addr,
            proto: Proto::Tcp,
            listen: mode,
            handler: None,
        });
        self.servers.len() - 1
    }

    pub fn server_mut<T: 'static>(&mut self, idx: usize) -> Option<&mut T> {
        self.servers[idx]
            .handler
            .as_mut()
            .and_then(|h| h.as_any().downcast_mut::<T>())
    }

    fn push(&mut self, at: u64, ev: Ev) {
        self.seq += 1;
        self.queue.push(Reverse(Queued { at, seq: self.seq, ev }));
    }

    fn find_server(&self, addr: SocketAddr, proto: Proto) -> Option<usize> {
        // routing: an address the host's resolver gave for a name leads to the aliased simulated host
        let ip = self.ip_alias.iter().find(|(from, _)| *from == addr.ip()).map_or(addr.ip(), |(_, to)| *to);
        let addr = SocketAddr::new(ip, addr.port());
        self.servers
            .iter()
            .position(|s| s.proto == proto && s.addr == addr)
    }

    fn latency(&mut self) -> u64 {
        let j = if self.net.jitter > 0 {
            self.tape.draw(tape::NET, self.net.jitter + 1)
        } else {
            0
        };
        self.net.min_latency + j
    }

    fn spend_op(&mut self) {
        self.stats.events += 1;
        if self.op_budget == 0 {
            panic!("{}", SIM_OP_BUDGET);
        }
        self.op_budget -= 1;
    }

    // ---------------- network ----------------

    fn net_udp_to_server(&mut self, server: usize, from: SocketAddr, data: Vec<u8>) {
        let len = data.len();
        if self.tape.chance(tape::NET, self.net.drop_ppm) {
            self.stats.fault("drop_request");
            self.hist.push(Hist::Net { t: self.now, what: "drop", to_client: false, len });
            return;
        }
        let mut at = self.now.saturating_add(self.latency());
        if self.tape.chance(tape::NET, self.net.delay_ppm) {
            at = at.saturating_add(self.tape.draw(tape::NET, self.net.big_delay + 1));
            self.stats.fault("delay_request");
        }
        if self.net.fifo {
            at = at.max(self.last_udp_to_server.saturating_add(1));
        }
        self.last_udp_to_server = self.last_udp_to_server.max(at);
        let dup = self.tape.chance(tape::NET, self.net.dup_ppm);
        if dup {
            self.stats.fault("dup_request");
            self.hist.push(Hist::Net { t: self.now, what: "dup", to_client: false, len });
            let at2 = at.saturating_add(1).saturating_add(self.latency());
            self.push(at2, Ev::ToServerUdp { server, from, data: data.clone() });
        }
        self.push(at, Ev::ToServerUdp { server, from, data });
    }

    fn net_udp_to_client(&mut self, from: SocketAddr, to: SocketAddr, mut data: Vec<u8>, extra: u64) {
        let len = data.len();
        if let Some(b) = &mut self.net.udp_reply_budget {
            if *b == 0 {
                self.stats.fault("server_fell_silent");
                self.hist.push(Hist::Net { t: self.now, what: "silent", to_client: true, len });
                return;
            }
            *b -= 1;
        }
        // Find the client socket by its local port.
        let sock = self.socks.iter().position(|s| {
            !s.closed && matches!(&s.kind, SockKind::Udp { local, .. } if local.port() == to.port())
        });
        let Some(sock) = sock else {
            self.hist.push(Hist::Net { t: self.now, what: "no-socket", to_client: true, len });
            return;
        };
        if self.tape.chance(tape::NET, self.net.drop_ppm) {
            self.stats.fault("drop_reply");
            self.hist.push(Hist::Net { t: self.now, what: "drop", to_client: true, len });
            return;
        }
        let mut at = self.now.saturating_add(extra).saturating_add(self.latency());
        if self.tape.chance(tape::NET, self.net.delay_ppm) {
            at = at.saturating_add(self.tape.draw(tape::NET, self.net.big_delay + 1));
            self.stats.fault("delay_reply");
            self.hist.push(Hist::Net { t: self.now, what: "delay", to_client: true, len });
        }
        if self.net.fifo {
            at = at.max(self.last_udp_to_client.saturating_add(1));
        }
        self.last_udp_to_client = self.last_udp_to_client.max(at);
        if !data.is_empty() && self.tape.chance(tape::NET, self.net.flip_ppm) {
            let pos = self.tape.draw(tape::NET, data.len() as u64) as usize;
            let bit = self.tape.draw(tape::NET, 8);
            data[pos] ^= 1 << bit;
            self.stats.fault("bit_flip");
            self.hist.push(Hist::Net { t: self.now, what: "flip", to_client: true, len });
        }
        let mut src = from;
        if self.net.reply_from_port != 0 {
            src = SocketAddr::new(from.ip(), self.net.reply_from_port);
            self.stats.fault("reply_from_another_port");
        }
        let nth = self.net.udp_replies_seen;
        self.net.udp_replies_seen += 1;
        if let Some((n, extra)) = self.net.late_dup {
            if n == nth {
                self.stats.fault("late_dup_reply");
                self.hist.push(Hist::Net { t: self.now, what: "late-dup", to_client: true, len });
                self.push(at.saturating_add(extra), Ev::ToClientUdp { sock: sock as u64, from: src, data: data.clone() });
            }
        }
        if self.tape.chance(tape::NET, self.net.foreign_src_ppm) {
            src = SocketAddr::new(IpAddr::V4(Ipv4Addr::new(203, 0, 113, 7)), from.port());
            self.stats.fault("foreign_source");
        }
        if self.tape.chance(tape::NET, self.net.dup_ppm) {
            self.stats.fault("dup_reply");
            self.hist.push(Hist::Net { t: self.now, what: "dup", to_client: true, len });
            let at2 = at.saturating_add(1).saturating_add(self.latency());
            self.push(at2, Ev::ToClientUdp { sock: sock as u64, from: src, data: data.clone() });
        }
        self.push(at, Ev::ToClientUdp { sock: sock as u64, from: src, data });
    }

    fn net_tcp_to_client(&mut self, conn: usize, seg: TcpSeg) {
        let sock = self.conns[conn].sock;
        let seg = match seg {
            TcpSeg::Data(mut data) => {
                if let Some(b) = &mut self.net.tcp_byte_budget {
                    if (data.len() as u64) > *b {
                        data.truncate(*b as usize);
                        self.stats.fault("stream_stalled");
                        self.hist.push(Hist::Net { t: self.now, what: "stall", to_client: true, len: data.len() });
                    }
                    *b -= data.len() as u64;
                    if data.is_empty() {
                        return;
                    }
                }
                TcpSeg::Data(data)
            }
            TcpSeg::Fin if self.net.drop_fin || self.net.tcp_byte_budget == Some(0) => {
                self.stats.fault("fin_lost");
                self.hist.push(Hist::Net { t: self.now, what: "fin-lost", to_client: true, len: 0 });
                return;
            }
            other => other,
        };
        match seg {
            TcpSeg::Data(data) => {
                // Optionally cut into several segments with increasing arrival times.
                let mut pieces: Vec<Vec<u8>> = Vec::new();
                if data.len() > 1 && self.tape.chance(tape::NET, self.net.tcp_segment_ppm) {
                    // mostly a few pieces; one time in four a trickle: up to 32 single bytes, then the rest
                    let trickle = self.tape.draw(tape::NET, 4) == 0;
                    let n = if trickle { 2 + self.tape.draw(tape::NET, 32) as usize } else { 2 + self.tape.draw(tape::NET, 4) as usize };
                    let mut rest = &data[..];
                    for i in 0 .. n {
                        if trickle && i < n - 1 && !rest.is_empty() {
                            pieces.push(rest[.. 1].to_vec());
                            rest = &rest[1 ..];
                            continue;
                        }
                        if rest.is_empty() {
                            break;
                        }
                        let take = if i == n - 1 {
                            rest.len()
                        } else {
                            1 + self.tape.draw(tape::NET, rest.len() as u64) as usize
                        };
                        let take = take.min(rest.len());
                        pieces.push(rest[.. take].to_vec());
                        rest = &rest[take ..];
                    }
                    if !rest.is_empty() {
                        pieces.push(rest.to_vec());
                    }
                    self.stats.fault("tcp_segmented");
                } else {
                    pieces.push(data);
                }
                for p in pieces {
                    let at = self.now.saturating_add(self.latency()).max(self.conns[conn].last_to_client.saturating_add(1));
                    self.conns[conn].last_to_client = at;
                    self.push(at, Ev::ToClientTcp { sock, kind: TcpSeg::Data(p) });
                }
            }
            other => {
                let at = self.now.saturating_add(self.latency()).max(self.conns[conn].last_to_client.saturating_add(1));
                self.conns[conn].last_to_client = at;
                self.push(at, Ev::ToClientTcp { sock, kind: other });
            }
        }
    }

    fn net_tcp_to_server(&mut self, conn: usize, seg: TcpSeg) {
        let at = self.now.saturating_add(self.latency()).max(self.conns[conn].last_to_server.saturating_add(1));
        self.conns[conn].last_to_server = at;
        self.push(at, Ev::ToServerTcp { conn, kind: seg });
    }

    // ---------------- event loop ----------------

    fn dispatch(&mut self, ev: Ev) {
        match ev {
            Ev::ToClientUdp { sock, from, data } => {
                let s = &mut self.socks[sock as usize];
                if s.closed {
                    return;
                }
                if let SockKind::Udp { inbox, .. } = &mut s.kind {
                    inbox.push_back((from, data));
                }
            }
            Ev::ToServerUdp { server, from, data } => {
                self.hist.push(Hist::ServerRx {
                    t: self.now,
                    server,
                    proto: Proto::Udp,
                    from,
                    data: data.clone(),
                });
                if let Some(mut h) = self.servers[server].handler.take() {
                    h.on_udp(&mut Cx { w: self, me: server }, from, &data);
                    self.servers[server].handler = Some(h);
                }
            }
            Ev::ToClientTcp { sock, kind } => {
                let s = &mut self.socks[sock as usize];
                if s.closed {
                    return;
                }
                if let SockKind::Tcp { rx, fin, rst, .. } = &mut s.kind {
                    match kind {
                        TcpSeg::Data(d) => rx.extend(d),
                        TcpSeg::Fin => *fin = true,
                        TcpSeg::Rst => *rst = true,
                    }
                }
            }
            Ev::ToServerTcp { conn, kind } => {
                let server = self.conns[conn].server;
                let from = self.conns[conn].client_addr;
                if self.conns[conn].server_closed {
                    // Data arriving at a closed server side: the peer would answer with RST.
                    if let TcpSeg::Data(_) = kind {
                        let sock = self.conns[conn].sock;
                        if let SockKind::Tcp { peer_closed_writes, .. } = &mut self.socks[sock as usize].kind {
                            *peer_closed_writes += 1;
                        }
                        self.net_tcp_to_client(conn, TcpSeg::Rst);
                    }
                    return;
                }
                if let Some(mut h) = self.servers[server].handler.take() {
                    match kind {
                        TcpSeg::Data(d) => {
                            self.hist.push(Hist::ServerRx {
                                t: self.now,
                                server,
                                proto: Proto::Tcp,
                                from,
                                data: d.clone(),
                            });
                            h.on_tcp_data(&mut Cx { w: self, me: server }, conn, &d)
                        }
                        TcpSeg::Fin => h.on_tcp_fin(&mut Cx { w: self, me: server }, conn),
                        TcpSeg::Rst => {}
                    }
                    self.servers[server].handler = Some(h);
                }
            }
            Ev::Timer { server, token } => {
                if let Some(mut h) = self.servers[server].handler.take() {
                    h.on_timer(&mut Cx { w: self, me: server }, token);
                    self.servers[server].handler = Some(h);
                }
            }
        }
    }

    /// Run events until `ready(self)` or the deadline. Returns true if ready.
    fn run_until(&mut self, deadline: Option<u64>, ready: &dyn Fn(&World) -> bool) -> bool {
        loop {
            if ready(self) {
                return true;
            }
            let next_at = self.queue.peek().map(|q| q.0.at);
            match (next_at, deadline) {
                (None, None) => {
                    self.blocked_forever = true;
                    panic!("{}", SIM_BLOCKED);
                }
                (None, Some(d)) => {
                    self.now = self.now.max(d);
                    return false;
                }
                (Some(at), Some(d)) if at > d => {
                    self.now = self.now.max(d);
                    return false;
                }
                (Some(_), _) => {
                    self.spend_op();
                    let q = self.queue.pop().unwrap().0;
                    self.now = self.now.max(q.at);
                    self.dispatch(q.ev);
                }
            }
        }
    }

    /// Let everything still in flight play out (after the client returned).
    pub fn drain(&mut self, max_events: u64) {
        let mut n = 0;
        while let Some(q) = self.queue.pop() {
            let q = q.0;
            self.now = self.now.max(q.at);
            self.dispatch(q.ev);
            n += 1;
            if n >= max_events {
                break;
            }
        }
    }

    pub fn pending_events(&self) -> usize { self.queue.len() }

    // ---------------- cooperative OS faults ----------------

    fn io_fault(&mut self, call: &'static str) -> Option<io::Error> {
        if self.os.io_error_ppm == 0 {
            return None;
        }
        if !self.tape.chance(tape::OS, self.os.io_error_ppm) {
            return None;
        }
        const KINDS: &[(io::ErrorKind, &str)] = &[
            (io::ErrorKind::Interrupted, "Interrupted"),
            (io::ErrorKind::WouldBlock, "WouldBlock"),
            (io::ErrorKind::TimedOut, "TimedOut"),
            (io::ErrorKind::ConnectionReset, "ConnectionReset"),
            (io::ErrorKind::ConnectionRefused, "ConnectionRefused"),
            (io::ErrorKind::PermissionDenied, "PermissionDenied"),
            (io::ErrorKind::AddrInUse, "AddrInUse"),
            (io::ErrorKind::OutOfMemory, "OutOfMemory"),
            (io::ErrorKind::Other, "Other"),
        ];
        let (k, name) = KINDS[self.tape.draw(tape::OS, KINDS.len() as u64) as usize];
        self.stats.fault("io_error");
        self.hist.push(Hist::IoFault { t: self.now, call, kind: name });
        Some(io::Error::new(k, format!("injected {name}")))
    }

    fn dur_ns(d: Duration) -> u64 { u64::try_from(d.as_nanos()).unwrap_or(u64::MAX) }
}

/// The `Backend` handed to gamedig; shares the world with the harness.
pub struct SimBackend(pub Rc<RefCell<World>>);

impl Backend for SimBackend {
    fn udp_bind(&mut self, local: SocketAddr) -> io::Result<u64> {
        let _g = crate::alloc::InHarness::enter();
        let mut guard = self.0.borrow_mut();
        let w: &mut World = &mut guard;
        w.stats.client_ops += 1;
        if let Some(e) = w.io_fault("bind") {
            return Err(e);
        }
        let port = if local.port() == 0 {
            w.next_port += 1;
            w.next_port
        } else {
            local.port()
        };
        let local = SocketAddr::new(local.ip(), port);
        let id = w.socks.len() as u64;
        w.socks.push(Sock {
            kind: SockKind::Udp {
                local,
                inbox: VecDeque::new(),
            },
            read_timeout: None,
            write_timeout: None,
            read_timeout_set: false,
            write_timeout_set: false,
            closed: false,
        });
        let t = w.now;
        w.hist.push(Hist::UdpBind { t, sock: id, local });
        Ok(id)
    }

    fn udp_send_to(&mut self, s: u64, data: &[u8], to: SocketAddr) -> io::Result<usize> {
        let _g = crate::alloc::InHarness::enter();
        let mut guard = self.0.borrow_mut();
        let w: &mut World = &mut guard;
        w.stats.client_ops += 1;
        w.stats.udp_sends += 1;
        w.spend_op();
        let n = w.send_counter;
        w.send_counter += 1;
        let t = w.now;
        let mut forced = w.os.fail_send_at.contains(&n);
        if w.os.unit_matcher.as_ref().map_or(false, |m| m(data)) {
            let k = w.os.unit_sends_seen;
            w.os.unit_sends_seen += 1;
            forced |= w.os.fail_unit_sends.contains(&k);
        }
        let fault = if forced {
            w.stats.fault("send_error");
            Some(io::Error::new(io::ErrorKind::PermissionDenied, "injected send failure"))
        } else {
            w.io_fault("send_to")
        };
        if let Some(e) = fault {
            w.hist.push(Hist::UdpSend { t, sock: s, to, data: data.to_vec(), ok: false });
            return Err(e);
        }
        let local = match &w.socks[s as usize].kind {
            SockKind::Udp { local, .. } => *local,
            _ => return Err(io::Error::new(io::ErrorKind::InvalidInput, "not a udp socket")),
        };
        if local.is_ipv4() && to.is_ipv6() {
            w.hist.push(Hist::UdpSend { t, sock: s, to, data: data.to_vec(), ok: false });
            w.stats.probe("v4_socket_v6_destination");
            return Err(io::Error::from_raw_os_error(97)); // EAFNOSUPPORT, as the real kernel does
        }
        if data.len() > 65507 {
            w.hist.push(Hist::UdpSend { t, sock: s, to, data: data.to_vec(), ok: false });
            return Err(io::Error::from_raw_os_error(90)); // EMSGSIZE
        }
        w.hist.push(Hist::UdpSend { t, sock: s, to, data: data.to_vec(), ok: true });
        let from = SocketAddr::new(
            if to.is_ipv6() {
                IpAddr::V6(CLIENT_IP.to_ipv6_mapped())
            } else {
                IpAddr::V4(CLIENT_IP)
            },
            local.port(),
        );
        if let Some(server) = w.find_server(to, Proto::Udp) {
            w.net_udp_to_server(server, from, data.to_vec());
        } else {
            w.stats.probe("udp_to_nowhere");
        }
        Ok(data.len())
    }

    fn udp_recv_from(&mut self, s: u64, buf: &mut [u8]) -> io::Result<(usize, SocketAddr)> {
        let _g = crate::alloc::InHarness::enter();
        let mut guard = self.0.borrow_mut();
        let w: &mut World = &mut guard;
        w.stats.client_ops += 1;
        w.spend_op();
        if let Some(e) = w.io_fault("recv_from") {
            return Err(e);
        }
        let start = w.now;
        let timeout = w.socks[s as usize].read_timeout;
        let deadline = timeout.map(|t| start.saturating_add(t));
        let ready = w.run_until(deadline, &|w: &World| {
            matches!(&w.socks[s as usize].kind, SockKind::Udp { inbox, .. } if !inbox.is_empty())
        });
        let now = w.now;
        if !ready {
            w.stats.recv_timeouts += 1;
            w.hist.push(Hist::RecvTimeout { t: now, sock: s, waited: now - start, timeout });
            return Err(io::Error::new(io::ErrorKind::WouldBlock, "Resource temporarily unavailable"));
        }
        let (from, data) = match &mut w.socks[s as usize].kind {
            SockKind::Udp { inbox, .. } => inbox.pop_front().unwrap(),
            _ => unreachable!(),
        };
        let n = data.len().min(buf.len());
        buf[.. n].copy_from_slice(&data[.. n]);
        if n < data.len() {
            w.stats.probe("datagram_truncated_to_buffer");
        }
        w.stats.udp_recvs += 1;
        w.hist.push(Hist::UdpRecv { t: now, sock: s, from, len: n, full_len: data.len(), waited: now - start });
        Ok((n, from))
    }

    fn tcp_connect(&mut self, to: SocketAddr, timeout: Option<Duration>) -> io::Result<u64> {
        let _g = crate::alloc::InHarness::enter();
        let mut guard = self.0.borrow_mut();
        let w: &mut World = &mut guard;
        w.stats.client_ops += 1;
        w.spend_op();
        let start = w.now;
        let tns = timeout.map(World::dur_ns);
        if let Some(d) = timeout {
            if d.is_zero() {
                w.hist.push(Hist::TcpConnect { t: start, sock: u64::MAX, to, timeout: tns, result: "invalid-input", waited: 0 });
                return Err(io::Error::new(io::ErrorKind::InvalidInput, "cannot set a 0 duration timeout"));
            }
        }
        if let Some(e) = w.io_fault("connect") {
            w.hist.push(Hist::TcpConnect { t: start, sock: u64::MAX, to, timeout: tns, result: "io-fault", waited: 0 });
            return Err(e);
        }
        let server = w.find_server(to, Proto::Tcp);
        let mode = server.map_or(TcpListen::Refuse, |i| w.servers[i].listen);
        match mode {
            TcpListen::Refuse => {
                let rtt = 2 * w.latency();
                w.now = w.now.saturating_add(rtt);
                w.stats.probe("tcp_refused");
                w.hist.push(Hist::TcpConnect { t: w.now, sock: u64::MAX, to, timeout: tns, result: "refused", waited: rtt });
                Err(io::Error::new(io::ErrorKind::ConnectionRefused, "Connection refused"))
            }
            TcpListen::BlackHole => {
                // Without a connect timeout the kernel gives up after ~127 s of SYN retries.
                let wait = tns.unwrap_or(127 * SEC);
                w.now = w.now.saturating_add(wait);
                w.stats.probe("tcp_syn_blackholed");
                if tns.is_none() {
                    w.stats.probe("tcp_connect_without_timeout_blackholed");
                }
                w.hist.push(Hist::TcpConnect { t: w.now, sock: u64::MAX, to, timeout: tns, result: "timed-out", waited: wait });
                Err(io::Error::new(io::ErrorKind::TimedOut, "connection timed out"))
            }
            TcpListen::Accept => {
                let server = server.unwrap();
                let rtt = 2 * w.latency();
                w.now = w.now.saturating_add(rtt);
                let id = w.socks.len() as u64;
                w.next_port += 1;
                let client_addr = SocketAddr::new(IpAddr::V4(CLIENT_IP), w.next_port);
                let conn = w.conns.len();
                w.conns.push(Conn {
                    server,
                    sock: id,
                    client_addr,
                    server_closed: false,
                    client_closed: false,
                    last_to_client: 0,
                    last_to_server: 0,
                });
                w.socks.push(Sock {
                    kind: SockKind::Tcp {
                        conn,
                        rx: VecDeque::new(),
                        fin: false,
                        rst: false,
                        peer_closed_writes: 0,
                    },
                    read_timeout: None,
                    write_timeout: None,
                    read_timeout_set: false,
                    write_timeout_set: false,
                    closed: false,
                });
                w.hist.push(Hist::TcpConnect { t: w.now, sock: id, to, timeout: tns, result: "connected", waited: rtt });
                if let Some(mut h) = w.servers[server].handler.take() {
                    h.on_tcp_connect(&mut Cx { w: &mut *w, me: server }, conn);
                    w.servers[server].handler = Some(h);
                }
                Ok(id)
            }
        }
    }

    fn tcp_write(&mut self, s: u64, data: &[u8]) -> io::Result<usize> {
        let _g = crate::alloc::InHarness::enter();
        let mut guard = self.0.borrow_mut();
        let w: &mut World = &mut guard;
        w.stats.client_ops += 1;
        w.stats.tcp_writes += 1;
        w.spend_op();
        let n = w.send_counter;
        w.send_counter += 1;
        let t = w.now;
        let mut forced = w.os.fail_send_at.contains(&n);
        if w.os.unit_matcher.as_ref().map_or(false, |m| m(data)) {
            let k = w.os.unit_sends_seen;
            w.os.unit_sends_seen += 1;
            forced |= w.os.fail_unit_sends.contains(&k);
        }
        let fault = if forced {
            w.stats.fault("send_error");
            Some(io::Error::new(io::ErrorKind::PermissionDenied, "injected write failure"))
        } else {
            w.io_fault("write")
        };
        if let Some(e) = fault {
            w.hist.push(Hist::TcpWrite { t, sock: s, data: data.to_vec(), accepted: 0, ok: false });
            return Err(e);
        }
        let (conn, rst, pcw) = match &w.socks[s as usize].kind {
            SockKind::Tcp { conn, rst, peer_closed_writes, .. } => (*conn, *rst, *peer_closed_writes),
            _ => return Err(io::Error::new(io::ErrorKind::InvalidInput, "not a tcp socket")),
        };
        if rst || pcw > 0 {
            w.stats.probe("tcp_write_after_peer_close");
            w.hist.push(Hist::TcpWrite { t, sock: s, data: data.to_vec(), accepted: 0, ok: false });
            return Err(io::Error::new(io::ErrorKind::BrokenPipe, "Broken pipe"));
        }
        let mut accepted = data.len();
        if data.len() > 1 && w.tape.chance(tape::OS, w.os.short_write_ppm) {
            accepted = 1 + w.tape.draw(tape::OS, data.len() as u64 - 1) as usize;
            w.stats.fault("short_write");
        }
        w.hist.push(Hist::TcpWrite { t, sock: s, data: data.to_vec(), accepted, ok: true });
        w.net_tcp_to_server(conn, TcpSeg::Data(data[.. accepted].to_vec()));
        Ok(accepted)
    }

    fn tcp_read(&mut self, s: u64, buf: &mut [u8]) -> io::Result<usize> {
        let _g = crate::alloc::InHarness::enter();
        let mut guard = self.0.borrow_mut();
        let w: &mut World = &mut guard;
        w.stats.client_ops += 1;
        w.spend_op();
        if let Some(e) = w.io_fault("read") {
            return Err(e);
        }
        if buf.is_empty() {
            return Ok(0);
        }
        let start = w.now;
        let timeout = w.socks[s as usize].read_timeout;
        let deadline = timeout.map(|t| start.saturating_add(t));
        let ready = w.run_until(deadline, &|w: &World| {
            matches!(&w.socks[s as usize].kind, SockKind::Tcp { rx, fin, rst, .. } if !rx.is_empty() || *fin || *rst)
        });
        let now = w.now;
        if !ready {
            w.stats.recv_timeouts += 1;
            w.hist.push(Hist::RecvTimeout { t: now, sock: s, waited: now - start, timeout });
            return Err(io::Error::new(io::ErrorKind::WouldBlock, "Resource temporarily unavailable"));
        }
        let mut out = 0usize;
        let mut eof = false;
        let mut reset = false;
        if let SockKind::Tcp { rx, fin, rst, .. } = &mut w.socks[s as usize].kind {
            if !rx.is_empty() {
                while out < buf.len() {
                    match rx.pop_front() {
                        Some(b) => {
                            buf[out] = b;
                            out += 1;
                        }
                        None => break,
                    }
                }
            } else if *rst {
                reset = true;
            } else if *fin {
                eof = true;
            }
        }
        if reset {
            w.stats.probe("tcp_reset_seen");
            return Err(io::Error::new(io::ErrorKind::ConnectionReset, "Connection reset by peer"));
        }
        // (a long run of end-of-stream polls is recorded once in a thousand)
        let eof_polls = 40_000_000 - w.eof_read_budget;
        if !(eof && out == 0) || eof_polls < 64 || eof_polls % 1000 == 0 {
            w.hist.push(Hist::TcpRead { t: now, sock: s, len: out, waited: now - start, eof });
        }
        if out > 0 {
            // a read that delivered bytes is progress, not spinning: it does not count against the
            // operation budget (what the peer can send is finite)
            w.op_budget = w.op_budget.saturating_add(1);
        } else if eof {
            // reads at end of stream are charged to a budget of their own: a streaming decoder may
            // legitimately poll the closed stream once per byte of output it still has pending (seen:
            // gzip body read byte by byte), which is bounded by the response size limit; a client that
            // spins on end-of-stream forever still runs out (or into the CPU watchdog)
            w.op_budget = w.op_budget.saturating_add(1);
            w.eof_read_budget = w.eof_read_budget.saturating_sub(1);
            if w.eof_read_budget == 0 {
                w.op_budget = 0;
            }
        }
        Ok(out)
    }

    fn set_read_timeout(&mut self, s: u64, t: Option<Duration>) -> io::Result<()> {
        let _g = crate::alloc::InHarness::enter();
        let mut guard = self.0.borrow_mut();
        let w: &mut World = &mut guard;
        w.stats.client_ops += 1;
        let now = w.now;
        let v = t.map(World::dur_ns);
        if matches!(t, Some(d) if d.is_zero()) {
            w.hist.push(Hist::SetTimeout { t: now, sock: s, read: true, value: v, ok: false });
            return Err(io::Error::new(io::ErrorKind::InvalidInput, "cannot set a 0 duration timeout"));
        }
        w.socks[s as usize].read_timeout = v;
        w.socks[s as usize].read_timeout_set = true;
        w.hist.push(Hist::SetTimeout { t: now, sock: s, read: true, value: v, ok: true });
        Ok(())
    }

    fn set_write_timeout(&mut self, s: u64, t: Option<Duration>) -> io::Result<()> {
        let _g = crate::alloc::InHarness::enter();
        let mut guard = self.0.borrow_mut();
        let w: &mut World = &mut guard;
        w.stats.client_ops += 1;
        let now = w.now;
        let v = t.map(World::dur_ns);
        if matches!(t, Some(d) if d.is_zero()) {
            w.hist.push(Hist::SetTimeout { t: now, sock: s, read: false, value: v, ok: false });
            return Err(io::Error::new(io::ErrorKind::InvalidInput, "cannot set a 0 duration timeout"));
        }
        w.socks[s as usize].write_timeout = v;
        w.socks[s as usize].write_timeout_set = true;
        w.hist.push(Hist::SetTimeout { t: now, sock: s, read: false, value: v, ok: true });
        Ok(())
    }

    fn close(&mut self, s: u64) {
        // May run during unwinding: never panic here.
        let _g = crate::alloc::InHarness::enter();
        let Ok(mut guard) = self.0.try_borrow_mut() else { return };
        let w: &mut World = &mut guard;
        if (s as usize) >= w.socks.len() {
            return;
        }
        w.socks[s as usize].closed = true;
        let now = w.now;
        w.hist.push(Hist::Close { t: now, sock: s });
        if let SockKind::Tcp { conn, .. } = &w.socks[s as usize].kind {
            let conn = *conn;
            if !w.conns[conn].client_closed {
                w.conns[conn].client_closed = true;
                w.net_tcp_to_server(conn, TcpSeg::Fin);
            }
        }
    }

    fn http_request(&mut self, method: &str, url: &str, headers: &[(String, String)]) -> Option<io::Result<Vec<u8>>> {
        let _g = crate::alloc::InHarness::enter();
        let mut guard = self.0.borrow_mut();
        let w: &mut World = &mut guard;
        w.stats.client_ops += 1;
        let now = w.now;
        w.hist.push(Hist::Http {
            t: now,
            method: method.to_string(),
            url: url.to_string(),
            headers: headers.to_vec(),
        });
        let mut h = w.http.take();
        let r = match &mut h {
            Some(handler) => Some(handler.serve(&mut *w, method, url, headers)),
            // no request-level stub in this world: the real HTTP client (ureq) runs over the
            // simulated TCP transport and clock
            None => None,
        };
        w.http = h;
        r
    }
}

/// Transport and clock of the vendored HTTP client: the same simulated OS layer.
impl verif_net::Net for SimBackend {
    fn now_ns(&mut self) -> u64 { self.0.borrow().now }

    fn tcp_connect(&mut self, to: SocketAddr, timeout: Option<Duration>) -> io::Result<u64> {
        self.0.borrow_mut().stats.probe("http_client_connects_over_simulated_tcp");
        Backend::tcp_connect(self, to, timeout)
    }

    fn tcp_write(&mut self, s: u64, data: &[u8]) -> io::Result<usize> { Backend::tcp_write(self, s, data) }

    fn tcp_read(&mut self, s: u64, buf: &mut [u8]) -> io::Result<usize> { Backend::tcp_read(self, s, buf) }

    fn tcp_peek(&mut self, s: u64) -> io::Result<usize> {
        let w = self.0.borrow();
        match &w.socks[s as usize].kind {
            SockKind::Tcp { rx, fin, rst, .. } => {
                if !rx.is_empty() {
                    Ok(rx.len().min(1))
                } else if *rst {
                    Err(io::Error::new(io::ErrorKind::ConnectionReset, "Connection reset by peer"))
                } else if *fin {
                    Ok(0)
                } else {
                    Err(io::Error::new(io::ErrorKind::WouldBlock, "Resource temporarily unavailable"))
                }
            }
            _ => Err(io::Error::new(io::ErrorKind::InvalidInput, "not a stream socket")),
        }
    }

    fn set_read_timeout(&mut self, s: u64, t: Option<Duration>) -> io::Result<()> { Backend::set_read_timeout(self, s, t) }

    fn set_write_timeout(&mut self, s: u64, t: Option<Duration>) -> io::Result<()> { Backend::set_write_timeout(self, s, t) }

    fn close(&mut self, s: u64) { Backend::close(self, s) }
}

// ---------------- history helpers ----------------

impl World {
    /// All client transmissions (UDP datagrams and TCP writes) in order.
    pub fn client_sends(&self) -> Vec<(SocketAddr, Vec<u8>)> {
        let mut out = Vec::new();
        let mut tcp_dest: BTreeMap<u64, SocketAddr> = BTreeMap::new();
        for h in &self.hist {
            match h {
                Hist::TcpConnect { sock, to, result, .. } if *result == "connected" => {
                    tcp_dest.insert(*sock, *to);
                }
                Hist::UdpSend { to, data, .. } => out.push((*to, data.clone())),
                Hist::TcpWrite { sock, data, .. } => {
                    if let Some(to) = tcp_dest.get(sock) {
                        out.push((*to, data.clone()));
                    }
                }
                _ => {}
            }
        }
        out
    }

    /// Hash of the full event log (bytes included). Master-server requests are hashed as
    /// byte multisets: gamedig emits the filters of a std HashMap (RandomState), so their
    /// order inside the request differs from process to process and is not part of any property.
    pub fn log_hash(&self) -> u64 {
        fn canon(d: &[u8]) -> Vec<u8> {
            if d.len() > 3 && d[0] == 0x31 {
                let mut v = d.to_vec();
                v.sort_unstable();
                v
            } else {
                d.to_vec()
            }
        }
        let mut f = Fnv::default();
        for h in &self.hist {
            match h {
                Hist::UdpSend { t, sock, to, data, ok } => f.str(&format!("S{t} {sock} {to} {ok} {:?}", canon(data))),
                Hist::ServerRx { t, server, proto, from, data } => f.str(&format!("X{t} {server} {proto:?} {from} {:?}", canon(data))),
                other => f.str(&format!("{other:?}")),
            }
        }
        f.0
    }

    /// Hash of the event-order signature: kinds, directions and outcome
    /// classes only. The measure of "distinct interleavings".
    pub fn interleaving_hash(&self) -> u64 {
        let mut f = Fnv::default();
        for h in &self.hist {
            match h {
                Hist::UdpSend { data, ok, .. } => {
                    f.str("S");
                    f.u64(data.first().copied().unwrap_or(0) as u64 | ((data.get(4).copied().unwrap_or(0) as u64) << 8));
                    f.u64(*ok as u64);
                }
                Hist::UdpRecv { len, full_len, .. } => {
                    f.str("R");
                    f.u64((*len < *full_len) as u64);
                }
                Hist::RecvTimeout { .. } => f.str("T"),
                Hist::TcpConnect { result, .. } => {
                    f.str("C");
                    f.str(result);
                }
                Hist::TcpWrite { ok, accepted, data, .. } => {
                    f.str("W");
                    f.u64(*ok as u64 + 2 * ((*accepted < data.len()) as u64));
                }
                Hist::TcpRead { eof, .. } => {
                    f.str("r");
                    f.u64(*eof as u64);
                }
                Hist::IoFault { call, kind, .. } => {
                    f.str("F");
                    f.str(call);
                    f.str(kind);
                }
                Hist::Sleep { ns, .. } => {
                    f.str("Z");
                    f.u64(*ns);
                }
                Hist::Net { what, to_client, .. } => {
                    f.str("N");
                    f.str(what);
                    f.u64(*to_client as u64);
                }
                Hist::ServerRx { .. } => f.str("x"),
                Hist::ServerTx { .. } => f.str("t"),
                Hist::Http { .. } => f.str("H"),
                _ => {}
            }
        }
        f.0
    }

    pub fn render_history(&self, max: usize) -> Vec<String> {
        fn hex(d: &[u8]) -> String {
            let mut s = String::new();
            for b in d.iter().take(160) {
                s.push_str(&format!("{b:02x}"));
            }
            if d.len() > 160 {
                s.push_str(&format!("..(+{})", d.len() - 160));
            }
            s
        }
        let mut out = Vec::new();
        for h in self.hist.iter().take(max) {
            out.push(match h {
                Hist::UdpBind { t, sock, local } => format!("t={t} bind sock={sock} {local}"),
                Hist::UdpSend { t, sock, to, data, ok } => {
                    format!("t={t} send sock={sock} to={to} ok={ok} len={} {}", data.len(), hex(data))
                }
                Hist::UdpRecv { t, sock, from, len, full_len, waited } => {
                    format!("t={t} recv sock={sock} from={from} len={len}/{full_len} waited={waited}")
                }
                Hist::RecvTimeout { t, sock, waited, timeout } => {
                    format!("t={t} recv-timeout sock={sock} waited={waited} timeout={timeout:?}")
                }
                Hist::TcpConnect { t, sock, to, timeout, result, waited } => {
                    format!("t={t} connect sock={sock} to={to} timeout={timeout:?} -> {result} waited={waited}")
                }
                Hist::TcpWrite { t, sock, data, accepted, ok } => {
                    format!("t={t} write sock={sock} ok={ok} accepted={accepted}/{} {}", data.len(), hex(data))
                }
                Hist::TcpRead { t, sock, len, waited, eof } => {
                    format!("t={t} read sock={sock} len={len} eof={eof} waited={waited}")
                }
                Hist::SetTimeout { t, sock, read, value, ok } => {
                    format!("t={t} set-{}-timeout sock={sock} {value:?} ok={ok}", if *read { "read" } else { "write" })
                }
                Hist::Close { t, sock } => format!("t={t} close sock={sock}"),
                Hist::IoFault { t, call, kind } => format!("t={t} FAULT io-error in {call}: {kind}"),
                Hist::Sleep { t, ns } => format!("t={t} client sleeps {ns} ns"),
                Hist::Net { t, what, to_client, len } => {
                    format!("t={t} FAULT net {what} {} len={len}", if *to_client { "to-client" } else { "to-server" })
                }
                Hist::ServerRx { t, server, proto, from, data } => {
                    format!("t={t} server{server} rx {proto:?} from={from} len={} {}", data.len(), hex(data))
                }
                Hist::ServerTx { t, server, proto, len, data } => format!("t={t} server{server} tx {proto:?} len={len} {}", hex(data)),
                Hist::Http { t, method, url, headers } => format!("t={t} http {method} {url} headers={headers:?}"),
            });
        }
        if self.hist.len() > max {
            out.push(format!("... {} more events", self.hist.len() - max));
        }
        out
    }
}

impl World {
    /// The client's thread sleeps: virtual time passes, nothing else happens on its side.
    pub fn client_sleep(&mut self, ns: u64) {
        let t = self.now;
        self.hist.push(Hist::Sleep { t, ns });
        self.stats.probe("client_slept");
        self.stats.client_ops += 1;
        self.now = self.now.saturating_add(ns);
    }
}

//! Generators drawing from the tape. 0 on the tape always means the simplest
//! value (empty string, zero, first variant).

use crate::tape::{Tape, CFG, DATA};
use gamedig::protocols::types::{GatherToggle, TimeoutSettings};
use std::time::Duration;

pub struct StrOpts {
    pub max_len: usize,
    /// characters that must not appear
    pub forbid: &'static [char],
    /// allow non-ASCII code points
    pub unicode: bool,
    /// allow control characters (other than NUL)
    pub control: bool,
    pub min_len: usize,
}

impl StrOpts {
    pub const fn plain(max_len: usize) -> Self {
        Self {
            max_len,
            forbid: &['\0'],
            unicode: true,
            control: false,
            min_len: 0,
        }
    }
}

const ASCII_POOL: &[u8] = b"abcdefghijklmnopqrstuvwxyzABCDEFGHIJKLMNOPQRSTUVWXYZ0123456789 _-.:[]()!#$%&*+,/;<=>?@^`{|}~'\"";
const TOKENS: &[&str] = &["]]>", "<![CDATA[", "&amp;", "&#0;", "&#x1;", "<!--", "-->", "<?x", "?>", "</a>", "%s", "{}", "${x}", "''", "\\n", "\\u0000", "^1", "0x"];
const UNI_POOL: &[char] = &[
    'é', 'ß', 'ø', 'Ж', 'я', '中', '文', '日', '本', 'ñ', 'ü', '€', '☃', '✓', '🎮', '𝄞', '\u{a0}', '\u{feff}', 'İ', 'ǅ',
];
const CTRL_POOL: &[char] = &['\t', '\n', '\r', '\x01', '\x1b', '\x7f', '\x08', '\x0b', '\u{85}', '\u{9b}', '\u{2028}', '\u{fffe}', '\u{ffff}'];

thread_local! {
    static NASTY: std::cell::Cell<bool> = const { std::cell::Cell::new(false) };
    static TAME_KEYS: std::cell::Cell<bool> = const { std::cell::Cell::new(false) };
}

/// While set, map keys generated for server states are identifier-like words
/// starting with a letter (valid XML names).
pub fn set_tame_keys(on: bool) { TAME_KEYS.with(|c| c.set(on)); }

pub fn tame_keys() -> bool { TAME_KEYS.with(std::cell::Cell::get) }

/// A map key (rule name, variable name): any string, or a plain word in tame mode.
pub fn key_string(t: &mut Tape, o: &StrOpts) -> String {
    if tame_keys() {
        word(t, 12)
    } else {
        string(t, o)
    }
}

/// While set, every generated string may also contain control characters
/// (markup characters and non-ASCII code points are always in the alphabet).
pub fn set_nasty_strings(on: bool) { NASTY.with(|c| c.set(on)); }

pub fn string(t: &mut Tape, o: &StrOpts) -> String {
    let nasty = NASTY.with(std::cell::Cell::get);
    // length: biased to short; 0 on the tape -> min_len
    let span = (o.max_len - o.min_len) as u64;
    let sel = t.draw(DATA, 8);
    let len = o.min_len
        + match sel {
            0 => 0,
            1 ..= 4 => t.draw(DATA, span.min(12) + 1) as usize,
            5 | 6 => t.draw(DATA, span.min(40) + 1) as usize,
            _ => t.draw(DATA, span + 1) as usize,
        };
    let len = len.min(o.max_len);
    let mut s = String::new();
    let mut n = 0;
    while n < len {
        let k = t.draw(DATA, 16);
        if k == 12 && t.draw(DATA, 2) == 0 {
            // a character sequence that means something to an output format or a parser down the line
            let tok = *t.pick(DATA, TOKENS);
            if n + tok.chars().count() <= len && !tok.chars().any(|c| o.forbid.contains(&c)) {
                s.push_str(tok);
                n += tok.chars().count();
                continue;
            }
        }
        let c = if k >= 14 && o.unicode {
            UNI_POOL[t.draw(DATA, UNI_POOL.len() as u64) as usize]
        } else if k == 13 && (o.control || nasty) && !tame_keys() {
            CTRL_POOL[t.draw(DATA, CTRL_POOL.len() as u64) as usize]
        } else {
            ASCII_POOL[t.draw(DATA, ASCII_POOL.len() as u64) as usize] as char
        };
        n += 1;
        if o.forbid.contains(&c) {
            continue;
        }
        s.push(c);
    }
    s
}

/// A short identifier-like word (keys, names that must be unique).
pub fn word(t: &mut Tape, max_len: usize) -> String {
    let len = 1 + t.draw(DATA, max_len as u64) as usize;
    let w: String = (0 .. len)
        .map(|_| b"abcdefghijklmnopqrstuvwxyzABCXYZ0123456789"[t.draw(DATA, 42) as usize] as char)
        .collect();
    if tame_keys() && w.starts_with(|c: char| c.is_ascii_digit()) {
        format!("k{w}")
    } else {
        w
    }
}

pub fn u8_(t: &mut Tape) -> u8 {
    match t.draw(DATA, 4) {
        0 => *t.pick(DATA, &[0u8, 1, 2, 0x7f, 0x80, 0xfe, 0xff, 10, 26, 27, 32, 64]),
        _ => t.draw(DATA, 256) as u8,
    }
}

pub fn u16_(t: &mut Tape) -> u16 {
    match t.draw(DATA, 4) {
        0 => *t.pick(DATA, &[0u16, 1, 0xff, 0x100, 0x7fff, 0x8000, 0xfffe, 0xffff, 27015]),
        _ => t.draw(DATA, 65536) as u16,
    }
}

pub fn u32_(t: &mut Tape) -> u32 {
    match t.draw(DATA, 4) {
        0 => {
            *t.pick(DATA, &[
                0u32,
                1,
                0xff,
                0xffff,
                0x10000,
                0x7fff_ffff,
                0x8000_0000,
                0xffff_fffe,
                0xffff_ffff,
            ])
        }
        1 => t.draw(DATA, 1000) as u32,
        _ => t.draw(DATA, 1 << 32) as u32,
    }
}

pub fn i32_(t: &mut Tape) -> i32 { u32_(t) as i32 }

pub fn u64_(t: &mut Tape) -> u64 {
    match t.draw(DATA, 4) {
        0 => *t.pick(DATA, &[0u64, 1, u32::MAX as u64, (u32::MAX as u64) + 1, i64::MAX as u64, u64::MAX]),
        _ => t.full_u64(DATA),
    }
}

pub fn bool_(t: &mut Tape) -> bool { t.draw(DATA, 2) == 1 }

pub fn count(t: &mut Tape, max: u64) -> u64 {
    // biased small, sometimes up to max, with a probe-able extreme
    match t.draw(DATA, 10) {
        0 => 0,
        1 ..= 5 => t.draw(DATA, max.min(4) + 1),
        6 | 7 => t.draw(DATA, max.min(20) + 1),
        8 => t.draw(DATA, max + 1),
        _ => max,
    }
}

pub fn toggle(t: &mut Tape) -> GatherToggle {
    match t.draw(CFG, 3) {
        0 => GatherToggle::Skip,
        1 => GatherToggle::Try,
        _ => GatherToggle::Enforce,
    }
}

/// Finite timeout settings (the default `None` argument, or explicit values).
pub fn timeouts(t: &mut Tape, max_retries: u64) -> Option<TimeoutSettings> { timeouts_with(t, max_retries, true) }

/// Timeouts that always exceed the simulated round-trip time (for fault-free runs).
pub fn timeouts_long(t: &mut Tape, max_retries: u64) -> Option<TimeoutSettings> { timeouts_with(t, max_retries, false) }

fn timeouts_with(t: &mut Tape, max_retries: u64, short_ok: bool) -> Option<TimeoutSettings> {
    if t.draw(CFG, 3) == 0 {
        return None;
    }
    let pick = |t: &mut Tape| {
        Some(match t.draw(CFG, 5) {
            0 => Duration::from_secs(4),
            1 if short_ok => Duration::from_nanos(1),
            2 if short_ok => Duration::from_millis(1),
            3 => Duration::from_millis(250),
            1 => Duration::from_secs(1),
            2 => Duration::from_secs(60),
            _ => Duration::from_secs(3600),
        })
    };
    let r = pick(t);
    let w = pick(t);
    let c = pick(t);
    let retries = t.draw(CFG, max_retries + 1) as usize;
    Some(TimeoutSettings::new(r, w, c, retries).expect("non-zero durations"))
}

pub fn retries_of(ts: &Option<TimeoutSettings>) -> usize { ts.map_or(0, |t| t.get_retries()) }

//! gdsim library: the simulator, models and property checks (shared with the clisim shadow binary).

pub mod alloc;
pub mod entry;
pub mod gen;
pub mod golden;
pub mod harness;
pub mod hostile;
pub mod minimise;
pub mod osprobe;
pub mod models;
pub mod prop;
pub mod props;
pub mod rng;
pub mod runner;
pub mod scenarios;
pub mod sleephook;
pub mod tape;
pub mod world;
pub mod xmlcheck;

/// Install the backend of the vendored HTTP client's transport and clock seam (for the shadow CLI,
/// which does not depend on `verif_net` itself).
pub fn install_http_transport(b: Box<dyn verif_net::Net>) { verif_net::install(b); }

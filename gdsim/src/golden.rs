//! Golden data committed with the harness: the definitions table's default
//! ports at the pinned commit (code-derived snapshot, `gdsim dump-ports`).

use std::collections::BTreeMap;
use std::sync::OnceLock;

static PORTS: OnceLock<BTreeMap<String, u16>> = OnceLock::new();

pub fn ports() -> &'static BTreeMap<String, u16> {
    PORTS.get_or_init(|| serde_json::from_str(include_str!("../data/golden_ports.json")).expect("golden_ports.json"))
}

/// Default port of a game id per the golden snapshot.
pub fn port(id: &str) -> Option<u16> { ports().get(id).copied() }

/// Golden default of a generated game module (module name == game id); falls
/// back to `fallback` for modules the snapshot does not know.
pub fn module_port(module: &str, fallback: u16) -> u16 { port(module).unwrap_or(fallback) }

//! Entry-point registry: every public query function of gamedig, callable
//! through one uniform descriptor, returning one uniform observation type.

use gamedig::games::minecraft::{self, LegacyGroup};
use gamedig::protocols::types::{CommonResponse, ExtraRequestSettings, TimeoutSettings};
use gamedig::protocols::{gamespy, quake, unreal2, valve};
use gamedig::valve_master_server::{Region, SearchFilters, ValveMasterServer};
use gamedig::{GDError, GDErrorKind, GDResult};
use serde_json::Value;
use std::collections::HashMap;
use std::net::{IpAddr, SocketAddr};

pub struct ValveGameRow {
    pub module: &'static str,
    pub name: &'static str,
    pub engine: fn() -> valve::Engine,
    pub port: u16,
    pub gather: fn() -> valve::GatheringSettings,
    pub query: fn(&IpAddr, Option<u16>) -> GDResult<valve::game::Response>,
}
pub struct GamespyGameRow {
    pub module: &'static str,
    pub name: &'static str,
    pub version: u8,
    pub port: u16,
    pub query: fn(&IpAddr, Option<u16>) -> GDResult<Resp>,
}
pub struct QuakeGameRow {
    pub module: &'static str,
    pub name: &'static str,
    pub version: u8,
    pub port: u16,
    pub query: fn(&IpAddr, Option<u16>) -> GDResult<Resp>,
}
pub struct Unreal2GameRow {
    pub module: &'static str,
    pub name: &'static str,
    pub port: u16,
    pub query: fn(&IpAddr, Option<u16>) -> GDResult<unreal2::Response>,
}

#[allow(unused_imports)]
mod table {
    use super::*;
    use gamedig::protocols::types::GatherToggle;
    use gamedig::protocols::valve::{Engine, GatheringSettings};
    include!(concat!(env!("OUT_DIR"), "/game_table.rs"));
}
pub use table::{GAMESPY_GAMES, QUAKE_GAMES, UNREAL2_GAMES, VALVE_GAMES};

/// The host name Eco queries of level 3 put into their extra settings.
pub const ECO_HOST_NAME: &str = "eco-server.invalid";

/// A uniform observation of a successful query.
#[derive(Debug, Clone)]
pub enum Resp {
    Valve(valve::Response),
    ValveGame(valve::game::Response),
    TheShip(gamedig::games::theship::Response),
    Gs1(gamespy::one::Response),
    Gs2(gamespy::two::Response),
    Gs3(gamespy::three::Response),
    Vars(HashMap<String, String>),
    Q1(quake::Response<quake::one::Player>),
    Q23(quake::Response<quake::two::Player>),
    Unreal2(unreal2::Response),
    Java(minecraft::JavaResponse),
    Bedrock(minecraft::BedrockResponse),
    Mindustry(gamedig::games::mindustry::types::ServerData),
    Ffow(gamedig::games::ffow::Response),
    Savage2(gamedig::games::savage2::Response),
    Jc2m(gamedig::games::jc2m::Response),
    Eco(gamedig::games::eco::Response),
    /// Result of the definition-driven entry point: the common view, the
    /// original (protocol-specific) view and the accessor values.
    /// `nonfinite`: NaN / infinite floating-point values in (as_json, as_original), counted on the typed
    /// values (a JSON value cannot carry them)
    Generic { json: Value, original: Value, accessors: Value, nonfinite: [u32; 2] },
    Master(Vec<(IpAddr, u16)>),
}

fn jv<T: serde::Serialize>(v: &T) -> Value { serde_json::to_value(v).unwrap_or(Value::Null) }

pub fn accessors_json(r: &dyn CommonResponse) -> Value {
    serde_json::json!({
        "name": r.name(),
        "description": r.description(),
        "game_mode": r.game_mode(),
        "game_version": r.game_version(),
        "map": r.map(),
        "players_maximum": r.players_maximum(),
        "players_online": r.players_online(),
        "players_bots": r.players_bots(),
        "has_password": r.has_password(),
        "players": r.players().map(|ps| ps.iter().map(|p| serde_json::json!({"name": p.name(), "score": p.score()})).collect::<Vec<_>>()),
    })
}

impl Resp {
    pub fn to_json(&self) -> Value {
        match self {
            Resp::Valve(r) => jv(r),
            Resp::ValveGame(r) => jv(r),
            Resp::TheShip(r) => jv(r),
            Resp::Gs1(r) => jv(r),
            Resp::Gs2(r) => jv(r),
            Resp::Gs3(r) => jv(r),
            Resp::Vars(r) => jv(r),
            Resp::Q1(r) => jv(r),
            Resp::Q23(r) => jv(r),
            Resp::Unreal2(r) => jv(r),
            Resp::Java(r) => jv(r),
            Resp::Bedrock(r) => jv(r),
            Resp::Mindustry(r) => jv(r),
            Resp::Ffow(r) => jv(r),
            Resp::Savage2(r) => jv(r),
            Resp::Jc2m(r) => jv(r),
            Resp::Eco(r) => jv(r),
            Resp::Generic { json, original, accessors, .. } => {
                serde_json::json!({"json": json, "original": original, "accessors": accessors})
            }
            Resp::Master(v) => jv(v),
        }
    }

    /// The protocol-independent view, if this response type has one.
    pub fn common(&self) -> Option<&dyn CommonResponse> {
        Some(match self {
            Resp::Valve(r) => r,
            Resp::TheShip(r) => r,
            Resp::Gs1(r) => r,
            Resp::Gs2(r) => r,
            Resp::Gs3(r) => r,
            Resp::Q1(r) => r,
            Resp::Q23(r) => r,
            Resp::Unreal2(r) => r,
            Resp::Java(r) => r,
            Resp::Bedrock(r) => r,
            Resp::Mindustry(r) => r,
            Resp::Ffow(r) => r,
            Resp::Savage2(r) => r,
            Resp::Jc2m(r) => r,
            Resp::Eco(r) => r,
            _ => return None,
        })
    }

    pub fn variant(&self) -> &'static str {
        match self {
            Resp::Valve(_) => "Valve",
            Resp::ValveGame(_) => "ValveGame",
            Resp::TheShip(_) => "TheShip",
            Resp::Gs1(_) => "Gs1",
            Resp::Gs2(_) => "Gs2",
            Resp::Gs3(_) => "Gs3",
            Resp::Vars(_) => "Vars",
            Resp::Q1(_) => "Q1",
            Resp::Q23(_) => "Q23",
            Resp::Unreal2(_) => "Unreal2",
            Resp::Java(_) => "Java",
            Resp::Bedrock(_) => "Bedrock",
            Resp::Mindustry(_) => "Mindustry",
            Resp::Ffow(_) => "Ffow",
            Resp::Savage2(_) => "Savage2",
            Resp::Jc2m(_) => "Jc2m",
            Resp::Eco(_) => "Eco",
            Resp::Generic { .. } => "Generic",
            Resp::Master(_) => "Master",
        }
    }
}

#[derive(Debug, Clone)]
pub enum Entry {
    /// `protocols::valve::query`
    Valve { engine: valve::Engine, gather: Option<valve::GatheringSettings> },
    /// `games::<module>::query` from the generated table (index into VALVE_GAMES)
    ValveGame(usize),
    Gs { version: u8, vars: bool },
    GsGame(usize),
    Quake { version: u8 },
    QuakeGame(usize),
    Unreal2 { gather: unreal2::GatheringSettings },
    Unreal2Game(usize),
    /// `games::minecraft::protocol::*` (SocketAddr + timeout settings)
    McAuto { settings: Option<minecraft::RequestSettings> },
    McJava { settings: Option<minecraft::RequestSettings> },
    McBedrock,
    McLegacy,
    McLegacySpecific(LegacyGroup),
    /// `games::minecraft::*` (IpAddr + optional port, default timeouts)
    McGameAuto,
    McGameJava { settings: Option<minecraft::RequestSettings> },
    McGameBedrock,
    McGameLegacy,
    McGameLegacySpecific(LegacyGroup),
    TheShip { with_timeout: bool },
    Ffow { with_timeout: bool },
    Jc2m { with_timeout: bool },
    Savage2 { with_timeout: bool },
    Mindustry,
    Battalion,
    Eco { level: u8 },
    /// `query_with_timeout_and_extra_settings` (level 2), `query_with_timeout` (1), `query` (0)
    Generic { game_id: &'static str, extra: Option<ExtraRequestSettings>, level: u8 },
    MasterQuery { region: Region, filters: Option<SearchFilters> },
    MasterSpecific { region: Region, filters: Option<SearchFilters>, last_ip: String, last_port: u16 },
}

impl Entry {
    /// Coarse family name used in signatures and samples.
    pub fn family(&self) -> String {
        match self {
            Entry::Valve { engine, .. } => {
                match engine {
                    valve::Engine::GoldSrc(f) => format!("valve-goldsrc{}", if *f { "-forced" } else { "" }),
                    valve::Engine::Source(_) => "valve-source".to_string(),
                }
            }
            Entry::ValveGame(_) => "valve-game".into(),
            Entry::Gs { version, vars } => format!("gamespy{version}{}", if *vars { "-vars" } else { "" }),
            Entry::GsGame(i) => format!("gamespy{}-game", GAMESPY_GAMES[*i].version),
            Entry::Quake { version } => format!("quake{version}"),
            Entry::QuakeGame(i) => format!("quake{}-game", QUAKE_GAMES[*i].version),
            Entry::Unreal2 { .. } => "unreal2".into(),
            Entry::Unreal2Game(_) => "unreal2-game".into(),
            Entry::McAuto { .. } => "minecraft-auto".into(),
            Entry::McJava { .. } => "minecraft-java".into(),
            Entry::McBedrock => "minecraft-bedrock".into(),
            Entry::McLegacy => "minecraft-legacy".into(),
            Entry::McLegacySpecific(g) => format!("minecraft-legacy-{g:?}"),
            Entry::McGameAuto => "minecraft-game-auto".into(),
            Entry::McGameJava { .. } => "minecraft-game-java".into(),
            Entry::McGameBedrock => "minecraft-game-bedrock".into(),
            Entry::McGameLegacy => "minecraft-game-legacy".into(),
            Entry::McGameLegacySpecific(g) => format!("minecraft-game-legacy-{g:?}"),
            Entry::TheShip { .. } => "theship".into(),
            Entry::Ffow { .. } => "ffow".into(),
            Entry::Jc2m { .. } => "jc2m".into(),
            Entry::Savage2 { .. } => "savage2".into(),
            Entry::Mindustry => "mindustry".into(),
            Entry::Battalion => "battalion1944".into(),
            Entry::Eco { .. } => "eco".into(),
            Entry::Generic { game_id, .. } => format!("generic:{game_id}"),
            Entry::MasterQuery { .. } => "master-query".into(),
            Entry::MasterSpecific { .. } => "master-specific".into(),
        }
    }

    /// Whether this entry point takes caller-supplied timeout settings.
    pub fn takes_timeout(&self) -> bool {
        !matches!(
            self,
            Entry::ValveGame(_)
                | Entry::GsGame(_)
                | Entry::QuakeGame(_)
                | Entry::Unreal2Game(_)
                | Entry::McGameAuto
                | Entry::McGameJava { .. }
                | Entry::McGameBedrock
                | Entry::McGameLegacy
                | Entry::McGameLegacySpecific(_)
                | Entry::Battalion
                | Entry::MasterQuery { .. }
                | Entry::MasterSpecific { .. }
                | Entry::TheShip { with_timeout: false }
                | Entry::Ffow { with_timeout: false }
                | Entry::Jc2m { with_timeout: false }
                | Entry::Savage2 { with_timeout: false }
                | Entry::Eco { level: 0 }
                | Entry::Generic { level: 0, .. }
        )
    }
}

#[derive(Debug, Clone)]
pub struct Call {
    pub entry: Entry,
    pub ip: IpAddr,
    pub port: Option<u16>,
    /// the port the caller means when `port` is None (the game's default, from
    /// the harness' golden table) — only used where the API wants a SocketAddr
    pub default_port: u16,
    pub timeout: Option<TimeoutSettings>,
}

impl Call {
    pub fn sockaddr(&self) -> SocketAddr { SocketAddr::new(self.ip, self.port.unwrap_or(self.default_port)) }
}

#[derive(Debug, Clone)]
pub struct ErrInfo {
    pub kind: GDErrorKind,
    pub text: String,
}

impl From<GDError> for ErrInfo {
    fn from(e: GDError) -> Self {
        let text = match &e.source {
            Some(s) => format!("{:?}: {}", e.kind, s),
            None => format!("{:?}", e.kind),
        };
        Self { kind: e.kind, text }
    }
}

pub fn is_timeout_class(k: &GDErrorKind) -> bool { matches!(k, GDErrorKind::PacketReceive | GDErrorKind::PacketSend) }

/// Invoke the real gamedig entry point described by `call`.
pub fn invoke(call: &Call) -> Result<Resp, ErrInfo> { invoke_inner(call).map_err(ErrInfo::from) }

fn invoke_inner(call: &Call) -> GDResult<Resp> {
    use gamedig::games;
    let ip = &call.ip;
    let port = call.port;
    let sa = call.sockaddr();
    let ts = call.timeout;
    Ok(match &call.entry {
        Entry::Valve { engine, gather } => Resp::Valve(valve::query(&sa, *engine, *gather, ts)?),
        Entry::ValveGame(i) => Resp::ValveGame((VALVE_GAMES[*i].query)(ip, port)?),
        Entry::Gs { version, vars } => {
            match (version, vars) {
                (1, false) => Resp::Gs1(gamespy::one::query(&sa, ts)?),
                (1, true) => Resp::Vars(gamespy::one::query_vars(&sa, ts)?),
                (2, _) => Resp::Gs2(gamespy::two::query(&sa, ts)?),
                (_, false) => Resp::Gs3(gamespy::three::query(&sa, ts)?),
                (_, true) => Resp::Vars(gamespy::three::query_vars(&sa, ts)?),
            }
        }
        Entry::GsGame(i) => (GAMESPY_GAMES[*i].query)(ip, port)?,
        Entry::Quake { version } => {
            match version {
                1 => Resp::Q1(quake::one::query(&sa, ts)?),
                2 => Resp::Q23(quake::two::query(&sa, ts)?),
                _ => Resp::Q23(quake::three::query(&sa, ts)?),
            }
        }
        Entry::QuakeGame(i) => (QUAKE_GAMES[*i].query)(ip, port)?,
        Entry::Unreal2 { gather } => Resp::Unreal2(unreal2::query(&sa, gather, ts)?),
        Entry::Unreal2Game(i) => Resp::Unreal2((UNREAL2_GAMES[*i].query)(ip, port)?),
        Entry::McAuto { settings } => Resp::Java(minecraft::protocol::query(&sa, ts, settings.clone())?),
        Entry::McJava { settings } => Resp::Java(minecraft::protocol::query_java(&sa, ts, settings.clone())?),
        Entry::McBedrock => Resp::Bedrock(minecraft::protocol::query_bedrock(&sa, ts)?),
        Entry::McLegacy => Resp::Java(minecraft::protocol::query_legacy(&sa, ts)?),
        Entry::McLegacySpecific(g) => Resp::Java(minecraft::protocol::query_legacy_specific(*g, &sa, ts)?),
        Entry::McGameAuto => Resp::Java(minecraft::query(ip, port)?),
        Entry::McGameJava { settings } => Resp::Java(minecraft::query_java(ip, port, settings.clone())?),
        Entry::McGameBedrock => Resp::Bedrock(minecraft::query_bedrock(ip, port)?),
        Entry::McGameLegacy => Resp::Java(minecraft::query_legacy(ip, port)?),
        Entry::McGameLegacySpecific(g) => Resp::Java(minecraft::query_legacy_specific(*g, ip, port)?),
        Entry::TheShip { with_timeout } => {
            Resp::TheShip(if *with_timeout {
                games::theship::query_with_timeout(ip, port, ts)?
            } else {
                games::theship::query(ip, port)?
            })
        }
        Entry::Ffow { with_timeout } => {
            Resp::Ffow(if *with_timeout {
                games::ffow::query_with_timeout(ip, port, ts)?
            } else {
                games::ffow::query(ip, port)?
            })
        }
        Entry::Jc2m { with_timeout } => {
            Resp::Jc2m(if *with_timeout {
                games::jc2m::query_with_timeout(ip, port, ts)?
            } else {
                games::jc2m::query(ip, port)?
            })
        }
        Entry::Savage2 { with_timeout } => {
            Resp::Savage2(if *with_timeout {
                games::savage2::query_with_timeout(ip, port, ts)?
            } else {
                games::savage2::query(ip, port)?
            })
        }
        Entry::Mindustry => Resp::Mindustry(games::mindustry::query(ip, port, &ts)?),
        Entry::Battalion => Resp::ValveGame(games::battalion1944::query(ip, port)?),
        Entry::Eco { level } => {
            Resp::Eco(match level {
                0 => games::eco::query(ip, port)?,
                1 => games::eco::query_with_timeout(ip, port, &ts)?,
                2 => games::eco::query_with_timeout_and_extra_settings(ip, port, &ts, None)?,
                // with a host name in the extra settings (a name that never resolves: the connection must
                // still go to the caller's address, only the Host header changes)
                4 | 5 => {
                    // an empty host name, or one made of a bracket only: settings the type accepts
                    let name = if *level == 4 { "" } else { "[" };
                    let extra = ExtraRequestSettings { hostname: Some(name.to_string()), protocol_version: None, gather_players: None, gather_rules: None, check_app_id: None };
                    games::eco::query_with_timeout_and_extra_settings(ip, port, &ts, Some(extra.into()))?
                }
                _ => {
                    let extra = ExtraRequestSettings { hostname: Some(ECO_HOST_NAME.to_string()), protocol_version: None, gather_players: None, gather_rules: None, check_app_id: None };
                    games::eco::query_with_timeout_and_extra_settings(ip, port, &ts, Some(extra.into()))?
                }
            })
        }
        Entry::Generic { game_id, extra, level } => {
            let game = gamedig::GAMES
                .get(game_id)
                .ok_or_else(|| GDErrorKind::InvalidInput.context("unknown game id"))?;
            let r = match level {
                0 => gamedig::query(game, ip, port)?,
                1 => gamedig::query_with_timeout(game, ip, port, ts)?,
                _ => gamedig::query_with_timeout_and_extra_settings(game, ip, port, ts, extra.clone())?,
            };
            Resp::Generic {
                json: jv(&r.as_json()),
                original: jv(&r.as_original()),
                accessors: accessors_json(r.as_ref()),
                nonfinite: [
                    bson::to_bson(&r.as_json()).map_or(0, |b| count_nonfinite(&b)),
                    bson::to_bson(&r.as_original()).map_or(0, |b| count_nonfinite(&b)),
                ],
            }
        }
        Entry::MasterQuery { region, filters } => {
            let mut ms = ValveMasterServer::new(&sa)?;
            Resp::Master(ms.query(*region, filters.clone())?)
        }
        Entry::MasterSpecific { region, filters, last_ip, last_port } => {
            let mut ms = ValveMasterServer::new(&sa)?;
            Resp::Master(ms.query_specific(*region, filters, last_ip, *last_port)?)
        }
    })
}

/// Number of NaN / infinite doubles in a BSON value.
pub fn count_nonfinite(b: &bson::Bson) -> u32 {
    match b {
        bson::Bson::Double(d) => u32::from(!d.is_finite()),
        bson::Bson::Array(a) => a.iter().map(count_nonfinite).sum(),
        bson::Bson::Document(d) => d.iter().map(|(_, v)| count_nonfinite(v)).sum(),
        _ => 0,
    }
}

impl Resp {
    /// A response of the same type built directly from a JSON value (through the type's own
    /// `Deserialize`), not obtained from a wire: `None` if the value does not fit the type.
    pub fn rebuild(&self, j: Value) -> Option<Resp> {
        fn de<T: serde::de::DeserializeOwned>(j: Value) -> Option<T> { serde_json::from_value(j).ok() }
        Some(match self {
            Resp::Valve(_) => Resp::Valve(de(j)?),
            Resp::TheShip(_) => Resp::TheShip(de(j)?),
            Resp::Gs1(_) => Resp::Gs1(de(j)?),
            Resp::Gs2(_) => Resp::Gs2(de(j)?),
            Resp::Gs3(_) => Resp::Gs3(de(j)?),
            Resp::Q1(_) => Resp::Q1(de(j)?),
            Resp::Q23(_) => Resp::Q23(de(j)?),
            Resp::Unreal2(_) => Resp::Unreal2(de(j)?),
            Resp::Java(_) => Resp::Java(de(j)?),
            Resp::Bedrock(_) => Resp::Bedrock(de(j)?),
            Resp::Mindustry(_) => Resp::Mindustry(de(j)?),
            Resp::Ffow(_) => Resp::Ffow(de(j)?),
            Resp::Savage2(_) => Resp::Savage2(de(j)?),
            Resp::Jc2m(_) => Resp::Jc2m(de(j)?),
            Resp::Eco(_) => Resp::Eco(de(j)?),
            _ => return None,
        })
    }
}

//! C06 — Unreal 2 replies decode strings and lists without loss or addition
//! (fault-free; every length-byte value is swept in both encodings).

use super::{run_built, standard_components, Built, SERVER_IP};
use crate::entry::{Call, Entry, UNREAL2_GAMES};
use crate::gen;
use crate::models::unreal2::{self as um, Unreal2Server, Unreal2State};
use crate::prop::{CaseOut, Prop, Tier};
use crate::tape::{Tape, CFG};
use crate::world::{Proto, World};
use gamedig::protocols::types::GatherToggle;
use gamedig::protocols::unreal2::GatheringSettings;
use serde_json::{json, Value};
use std::net::SocketAddr;

pub struct C06;

fn norm(e: &mut Value, o: &mut Value) {
    um::canonicalise(e);
    um::canonicalise(o);
}

/// `sweep`: Some((position, length byte)) forces the string at that position
/// (0 name, 1 map, 2 game type, 3 first player name, 4 first rule value) to
/// have exactly that length byte.
pub fn build(mut t: Tape, sweep: Option<(u8, u8)>) -> Built {
    let via_game = t.draw(CFG, 5) == 0;
    let (gather, entry, default_port) = if via_game {
        let i = t.draw(CFG, UNREAL2_GAMES.len() as u64) as usize;
        (GatheringSettings::default(), Entry::Unreal2Game(i), crate::golden::module_port(UNREAL2_GAMES[i].module, UNREAL2_GAMES[i].port))
    } else {
        let g = match t.draw(CFG, 3) {
            0 => GatheringSettings::default(),
            1 => GatheringSettings { players: GatherToggle::Enforce, mutators_and_rules: GatherToggle::Enforce },
            _ => GatheringSettings { players: gen::toggle(&mut t), mutators_and_rules: gen::toggle(&mut t) },
        };
        (g, Entry::Unreal2 { gather: g }, 7778)
    };
    let port = if t.draw(CFG, 2) == 0 { None } else { Some(1024 + t.draw(CFG, 60_000) as u16) };
    let timeout = if via_game { None } else { gen::timeouts_long(&mut t, 1) };
    let call = Call { entry, ip: SERVER_IP, port, default_port, timeout };
    let addr = SocketAddr::new(SERVER_IP, port.unwrap_or(default_port));
    let mut st = Unreal2State::generate(&mut t, 64);
    st.num_players = st.num_players.max(st.players.len() as u32);
    let mut family = "unreal2".to_string();
    if let Some((pos, lb)) = sweep {
        let ucs2 = lb >= 0x80;
        let counted = (lb & 0x7f) as usize;
        // the counted length includes the trailing NUL when the string is not empty
        let units = counted.saturating_sub(1);
        let mut s = um::gen_ustr(&mut t, ucs2, Some(units), 126);
        s.trailing_nul = counted > 0 || ucs2;
        if ucs2 && counted <= 1 {
            s.stray_one = false;
        }
        // the bare length byte 0x80 (empty UCS-2 string, no NUL unit) is unambiguous where the next
        // byte cannot be 0x01: before num_players (position 2) and before a player's ping (position 3)
        let bare = lb == 0x80 && (pos == 2 || pos == 3);
        if bare {
            s.trailing_nul = false;
        }
        match pos {
            0 => st.name = s,
            1 => st.map = s,
            2 => {
                st.game_type = s;
                if bare && st.num_players & 0xff == 1 {
                    st.num_players += 1;
                }
            }
            3 => {
                if st.players.is_empty() {
                    st.players.push(um::UPlayer { id: 1, name: s, ping: 5, score: 1, stats_id: 0 });
                    st.num_players = st.num_players.max(1);
                } else {
                    st.players[0].name = s;
                }
                if bare && st.players[0].ping & 0xff == 1 {
                    st.players[0].ping += 1;
                }
            }
            _ => {
                if st.rules.is_empty() {
                    st.rules.push((um::UStr::plain("k"), s));
                } else {
                    st.rules[0].1 = s;
                }
            }
        }
        family = format!("unreal2-{}", if ucs2 { "ucs2" } else { "latin1" });
    }
    let want_r = 1 + t.draw(CFG, 6) as usize;
    let want_p = 1 + t.draw(CFG, 6) as usize;
    let rules = st.rules_datagrams(want_r, &mut t);
    let players = st.players_datagrams(want_p, &mut t);
    // the reported count may also be lower than what is listed (a bot-only server reports 0): the client
    // may then stop after the first players datagram, so only when the list is in one datagram
    if sweep.is_none() && players.len() == 1 && t.draw(CFG, 3) == 0 {
        st.num_players = *t.pick(CFG, &[0u32, 0, 1, st.players.len() as u32 / 2]);
    }
    let with_rules = gather.mutators_and_rules != GatherToggle::Skip;
    let with_players = gather.players != GatherToggle::Skip;
    let expected = st.expected(with_rules, with_players);
    let detail = json!({"gather": format!("{gather:?}"), "rules": st.rules.len(), "players": st.players.len(), "rule_datagrams": rules.len(), "player_datagrams": players.len(),
        "name_encoding": if st.name.ucs2 { "ucs2" } else { "latin1" }, "name_units": st.name.units.len(), "sweep": sweep.map(|(p, l)| format!("position {p} length byte {l:#04x}"))});
    let mut w = World::new(t);
    w.add_server(addr, Proto::Udp, Box::new(Unreal2Server::new(st.info_datagram(), rules, players)));
    Built { call, world: w, expected, family, normalise: Some(norm), detail }
}

impl Prop for C06 {
    fn id(&self) -> &'static str { "C06" }

    fn level(&self) -> &'static str { "exploration" }

    fn cases(&self, tier: Tier) -> u64 {
        match tier {
            // 5 positions x 256 length bytes = 1280 swept cells per round
            Tier::Quick => 1280 * 16,
            Tier::Thorough => 1280 * 600,
        }
    }

    fn run_case(&self, idx: u64, t: Tape, detail: bool) -> (CaseOut, Tape) {
        let mut out = CaseOut::default();
        // every other round sweeps (position, length byte) exhaustively; the rest is free
        let round = idx / 1280;
        let cell = idx % 1280;
        let sweep = if round % 2 == 0 { Some(((cell / 256) as u8, (cell % 256) as u8)) } else { None };
        if let Some((_, lb)) = sweep {
            if lb == 0x1b {
                out.probe("length_byte_0x1b");
            }
            if lb & 0x7f >= 27 {
                out.probe("string_of_27_or_more_units");
            }
            if lb == 0xff {
                out.probe("ucs2_string_of_127_units");
            }
        }
        let b = build(t, sweep);
        let mut run = run_built(&mut out, b, "unreal2 query", detail);
        let tape = std::mem::replace(&mut run.world.tape, Tape::replay(Default::default()));
        (out, tape)
    }

    fn rule(&self) -> String {
        "cases come in rounds of 1280: even rounds sweep every length-byte value 0-255 (both encodings, incl. 0x1b and the UCS-2 flag) at each of 5 string positions (server name, map, game type, first player name, first rule value) with otherwise random state; odd rounds draw everything freely (colour escapes at any position, control codes, optional stray 0x01 byte, 1-6 datagrams per list cut at entry boundaries, repeated rule keys, Mutator / GamePassword rules, 0-64 players with ping 0 or not); lists are compared as multisets; non-trivial = a reply was received; distinct = distinct event-log hash".to_string()
    }

    fn assumptions(&self) -> Vec<String> {
        vec![
            "string format and colour stripping follow node-gamedig's readUnrealString (reference-derived)".into(),
            "Latin-1 strings use printable ASCII, 0xa0-0xff, control codes 0x01-0x1a and ESC sequences; 0x7f-0x9f are not generated (Latin-1 and Windows-1252 differ there)".into(),
            "num_players in the server info is at least the number of listed players whenever the list spans several datagrams (the client may stop once it has that many); with a one-datagram list it is drawn freely, 0 included".into(),
            "the greedy receive loops end on a simulated read timeout".into(),
            "the bare UCS-2 length byte 0x80 (empty, no NUL unit) is only sent where the next byte cannot be 0x01 (game type, first player name); elsewhere it is sent as 0x81 + NUL, because 0x80 followed by a 0x01 byte of the next field is inherently ambiguous with the stray-0x01 quirk".into(),
        ]
    }

    fn required_probes(&self) -> Vec<&'static str> { vec!["length_byte_0x1b", "string_of_27_or_more_units", "ucs2_string_of_127_units", "multi_datagram_reply"] }

    fn components(&self) -> Value { standard_components() }
}

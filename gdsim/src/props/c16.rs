//! C16 — master-server filters are encoded faithfully and paging is complete.
//! (a) all insertion sequences of length <= 3 over 18 filter kinds x 3 groups
//! (54 + 54^2 + 54^3 = 160 434, exhaustive), longer ones sampled; all regions.
//! (b) page histories of 1-6 pages of 0-230 entries, terminator at any position.

use super::{describe_result, standard_components, SERVER_IP};
use crate::entry::{Call, Entry, Resp};
use crate::harness::run_call;
use crate::prop::{CaseOut, Prop, Tier, Violation};
use crate::scenarios::REGIONS;
use crate::tape::{Tape, CFG, DATA};
use crate::world::{Cx, Proto, Server, World};
use gamedig::valve_master_server::{Filter, Region, SearchFilters};
use serde_json::{json, Value};
use std::collections::BTreeMap;
use std::net::{IpAddr, Ipv4Addr, SocketAddr};

pub struct C16;

pub const EXHAUSTIVE: u64 = 54 + 54 * 54 + 54 * 54 * 54;

fn word(t: &mut Tape) -> String { (*t.pick(DATA, &["de_dust2", "cp_badlands", "x", "valve", "tf", "my server", "1.0.0.0", "10.1.2.3", "a.b", "Ωmega", ""])).to_string() }

/// Filter of kind `k` (0..18) with a value from small pools, plus its (key, value) per the
/// Master Server Query Protocol.
pub fn make_filter(k: u64, t: &mut Tape) -> (Filter, &'static str, String) {
    let b = t.draw(DATA, 2) == 1;
    let bv = if b { "1" } else { "0" }.to_string();
    let n = *t.pick(DATA, &[0u32, 1, 10, 440, 730, 4_294_967_295]);
    match k {
        0 => (Filter::IsSecured(b), "secure", bv),
        1 => {
            let s = word(t);
            (Filter::RunsMap(s.clone()), "map", s)
        }
        2 => (Filter::CanHavePassword(b), "password", bv),
        3 => (Filter::CanBeEmpty(b), "empty", bv),
        4 => (Filter::IsEmpty(b), "noplayers", bv),
        5 => (Filter::CanBeFull(b), "full", bv),
        6 => (Filter::RunsAppID(n), "appid", n.to_string()),
        7 => (Filter::NotAppID(n), "napp", n.to_string()),
        8 => {
            let c = 1 + t.draw(DATA, 3);
            let tags: Vec<String> = (0 .. c).map(|_| word(t).replace(',', "")).collect();
            let joined = tags.join(",");
            (Filter::HasTags(tags), "gametype", joined)
        }
        9 => {
            let s = word(t);
            (Filter::MatchName(s.clone()), "name_match", s)
        }
        10 => {
            let s = word(t);
            (Filter::MatchVersion(s.clone()), "version_match", s)
        }
        11 => (Filter::RestrictUniqueIP(b), "collapse_addr_hash", bv),
        12 => {
            let s = word(t);
            (Filter::OnAddress(s.clone()), "gameaddr", s)
        }
        13 => (Filter::Whitelisted(b), "white", bv),
        14 => (Filter::SpectatorProxy(b), "proxy", bv),
        15 => (Filter::IsDedicated(b), "dedicated", bv),
        16 => (Filter::RunsLinux(b), "linux", bv),
        _ => {
            let s = word(t);
            (Filter::HasGameDir(s.clone()), "gamedir", s)
        }
    }
}

#[derive(Debug, Default, PartialEq, Eq, Clone)]
pub struct ParsedFilters {
    pub plain: BTreeMap<String, String>,
    pub nand: BTreeMap<String, String>,
    pub nor: BTreeMap<String, String>,
}

/// Reference parser of the filter grammar: `(\key\value)*`, where `\nand\N` and
/// `\nor\N` apply to the next N pairs. Errors name what is wrong.
pub fn parse_filter(s: &[u8]) -> Result<ParsedFilters, String> {
    let text = std::str::from_utf8(s).map_err(|_| "filter is not UTF-8".to_string())?;
    if text.is_empty() {
        return Ok(ParsedFilters::default());
    }
    if !text.starts_with('\\') {
        return Err(format!("filter does not start with a backslash: {text:?}"));
    }
    let parts: Vec<&str> = text[1 ..].split('\\').collect();
    if parts.len() % 2 != 0 {
        return Err(format!("odd number of backslash-separated tokens: {text:?}"));
    }
    let mut out = ParsedFilters::default();
    let mut group: Option<(bool, usize)> = None; // (is_nand, remaining)
    for kv in parts.chunks(2) {
        let (k, v) = (kv[0], kv[1]);
        if k == "nand" || k == "nor" {
            if group.map_or(false, |g| g.1 > 0) {
                return Err(format!("group opened inside an unfinished group: {text:?}"));
            }
            let n: usize = v.parse().map_err(|_| format!("group count {v:?} is not a number"))?;
            group = Some((k == "nand", n));
            continue;
        }
        let target = match &mut group {
            Some((is_nand, n)) if *n > 0 => {
                *n -= 1;
                if *is_nand {
                    &mut out.nand
                } else {
                    &mut out.nor
                }
            }
            _ => &mut out.plain,
        };
        if target.insert(k.to_string(), v.to_string()).is_some() {
            return Err(format!("filter {k:?} appears twice in one group"));
        }
    }
    if let Some((_, n)) = group {
        if n > 0 {
            return Err(format!("group announces {n} more filters than follow"));
        }
    }
    Ok(out)
}

/// Model master server: serves pages chosen by the seed address of each request.
pub struct MasterServer {
    pub pages: Vec<Vec<(Ipv4Addr, u16)>>,
    pub requests: Vec<Vec<u8>>,
    pub seeds: Vec<String>,
    pub after_end: u32,
}

impl MasterServer {
    fn page_bytes(p: &[(Ipv4Addr, u16)]) -> Vec<u8> {
        let mut d = vec![0xff, 0xff, 0xff, 0xff, 0x66, 0x0a];
        for (ip, port) in p {
            d.extend_from_slice(&ip.octets());
            d.extend_from_slice(&port.to_be_bytes());
        }
        d
    }
}

impl Server for MasterServer {
    fn on_udp(&mut self, cx: &mut Cx, from: SocketAddr, data: &[u8]) {
        self.requests.push(data.to_vec());
        if data.len() < 3 || data[0] != 0x31 {
            return;
        }
        let rest = &data[2 ..];
        let Some(nul) = rest.iter().position(|b| *b == 0) else { return };
        let seed = String::from_utf8_lossy(&rest[.. nul]).to_string();
        self.seeds.push(seed.clone());
        // which page does this seed select?
        let idx = if seed == "0.0.0.0:0" {
            Some(0)
        } else {
            self.pages
                .iter()
                .position(|p| p.last().map_or(false, |(ip, port)| format!("{ip}:{port}") == seed))
                .map(|i| i + 1)
        };
        match idx {
            Some(i) if i < self.pages.len() => {
                let d = Self::page_bytes(&self.pages[i]);
                cx.udp_send(from, d);
            }
            _ => {
                // a request beyond the end of the listing: the real server answers with the terminator only
                self.after_end += 1;
                cx.udp_send(from, Self::page_bytes(&[(Ipv4Addr::UNSPECIFIED, 0)]));
            }
        }
    }

    fn as_any(&mut self) -> &mut dyn std::any::Any { self }
}

fn groups_of(code: u64, len: usize) -> Vec<(u64, u64)> {
    // (kind 0..18, group 0..3) per insertion
    let mut c = code;
    (0 .. len)
        .map(|_| {
            let x = c % 54;
            c /= 54;
            (x % 18, x / 18)
        })
        .collect()
}

impl Prop for C16 {
    fn id(&self) -> &'static str { "C16" }

    fn level(&self) -> &'static str { "exploration" }

    fn cases(&self, tier: Tier) -> u64 {
        match tier {
            Tier::Quick => EXHAUSTIVE + 40_000,
            Tier::Thorough => EXHAUSTIVE + 3_000_000,
        }
    }

    fn run_case(&self, idx: u64, mut t: Tape, detail: bool) -> (CaseOut, Tape) {
        let mut out = CaseOut::default();
        let port = 27011;
        let addr = SocketAddr::new(SERVER_IP, port);
        let paging = idx >= EXHAUSTIVE && (idx - EXHAUSTIVE) % 2 == 1;
        if !paging {
            // ---------------- (a) filters
            let seq: Vec<(u64, u64)> = if idx < 54 {
                out.probe("sequences_of_1");
                groups_of(idx, 1)
            } else if idx < 54 + 54 * 54 {
                out.probe("sequences_of_2");
                groups_of(idx - 54, 2)
            } else if idx < EXHAUSTIVE {
                out.probe("sequences_of_3");
                groups_of(idx - 54 - 54 * 54, 3)
            } else {
                out.probe("longer_sequences_sampled");
                if t.draw(CFG, 3) == 0 {
                    // one big group: 10-18 distinct kinds in the same group (two-digit group counts)
                    out.probe("group_of_10_or_more");
                    let g = t.draw(CFG, 3);
                    let n = 10 + t.draw(CFG, 9);
                    let start = t.draw(CFG, 18);
                    (0 .. n).map(|i| ((start + i) % 18, g)).collect()
                } else {
                    let len = 4 + t.draw(CFG, 9) as usize;
                    (0 .. len).map(|_| (t.draw(CFG, 18), t.draw(CFG, 3))).collect()
                }
            };
            let region = REGIONS[(idx % 9) as usize];
            let mut sf = SearchFilters::new();
            let mut expected = ParsedFilters::default();
            let mut desc = Vec::new();
            for (kind, group) in &seq {
                let (f, key, val) = make_filter(*kind, &mut t);
                desc.push(format!("{}({f:?})", ["insert", "insert_nand", "insert_nor"][*group as usize]));
                let (sf2, target) = match group {
                    0 => (sf.insert(f), &mut expected.plain),
                    1 => (sf.insert_nand(f), &mut expected.nand),
                    _ => (sf.insert_nor(f), &mut expected.nor),
                };
                sf = sf2;
                target.insert(key.to_string(), val); // a later filter of the same kind replaces the earlier
            }
            let use_none = seq.is_empty();
            let seed_ip = *t.pick(CFG, &["0.0.0.0", "10.1.2.3", "255.255.255.255"]);
            let seed_port = *t.pick(CFG, &[0u16, 27015, 65535]);
            let call = Call {
                entry: Entry::MasterSpecific { region, filters: if use_none { None } else { Some(sf) }, last_ip: seed_ip.to_string(), last_port: seed_port },
                ip: SERVER_IP,
                port: Some(port),
                default_port: port,
                timeout: None,
            };
            let mut w = World::new(t);
            let sidx = w.add_server(addr, Proto::Udp, Box::new(MasterServer { pages: vec![vec![(Ipv4Addr::new(1, 2, 3, 4), 5)]], requests: Vec::new(), seeds: Vec::new(), after_end: 0 }));
            let mut run = run_call(w, &call);
            if let Some(c) = &run.crash {
                out.violate(super::crash_violation("filters|", c));
            }
            let reqs = run.world.server_mut::<MasterServer>(sidx).map(|s| s.requests.clone()).unwrap_or_default();
            let mut obs_text = String::new();
            if reqs.len() != 1 {
                out.violate(Violation::new("filters|request-count", "query_specific must send exactly one request", "1", reqs.len().to_string()));
            } else {
                let r = &reqs[0];
                obs_text = String::from_utf8_lossy(r).to_string();
                let header_ok = r.len() >= 3 && r[0] == 0x31 && r[1] == region as u8;
                let seed = format!("{seed_ip}:{seed_port}");
                let after = r.get(2 ..).unwrap_or(&[]);
                let seed_ok = after.starts_with(seed.as_bytes()) && after.get(seed.len()) == Some(&0);
                if !header_ok {
                    out.violate(Violation::new("filters|region", "request must start with 0x31 and the region byte", format!("31 {:02x}", region as u8), format!("{:02x?}", &r[.. r.len().min(2)])));
                } else if !seed_ok {
                    out.violate(Violation::new("filters|seed", "request must carry the seed address as ip:port NUL", seed, obs_text.clone()));
                } else {
                    let filt = &after[seed.len() + 1 ..];
                    match filt.split_last() {
                        Some((0, body)) if !body.contains(&0) => {
                            match parse_filter(body) {
                                Err(e) => out.violate(Violation::new("filters|grammar", "the filter string does not conform to the Master Server Query Protocol", "(\\key\\value)* with \\nand\\N / \\nor\\N groups", e)),
                                Ok(p) => {
                                    if p != expected {
                                        let which = if p.plain != expected.plain {
                                            "plain"
                                        } else if p.nand != expected.nand {
                                            "nand"
                                        } else {
                                            "nor"
                                        };
                                        out.violate(Violation::new(
                                            format!("filters|denotation/{which}"),
                                            "the filter string does not denote exactly the inserted filters in exactly their groups",
                                            format!("{expected:?}"),
                                            format!("{p:?}"),
                                        ));
                                    }
                                }
                            }
                        }
                        _ => out.violate(Violation::new("filters|termination", "the filter string must be terminated by exactly one NUL", "…\\0", format!("{:02x?}", filt.iter().rev().take(4).collect::<Vec<_>>()))),
                    }
                }
            }
            out.absorb(&run.world);
            out.nontrivial = true;
            out.distinct_key = crate::rng::mix(&[idx.min(EXHAUSTIVE), out.log_hash]);
            if detail {
                out.sample = Some(json!({"workload": "filters", "region": format!("{region:?}"), "insertions": desc, "request": obs_text, "result": describe_result(&run.result, &run.crash)}));
                out.schedule = run.world.render_history(20);
            }
            let tape = std::mem::replace(&mut run.world.tape, Tape::replay(Default::default()));
            return (out, tape);
        }
        // ---------------- (b) paging histories
        let npages = 1 + t.draw(CFG, 6) as usize;
        let mut counter = 0u32;
        // one history in five is made of addresses full of zero bytes (0.0.0.0 with a port, x.0.0.0, ports
        // whose low or high byte is 0): six zero bytes in a row then occur across entry boundaries without
        // any entry being the 0.0.0.0:0 terminator
        let zero_rich = t.draw(CFG, 5) == 0;
        let repeats = !zero_rich && t.draw(CFG, 4) == 0;
        let mut pages: Vec<Vec<(Ipv4Addr, u16)>> = Vec::new();
        for _ in 0 .. npages {
            let n = match t.draw(DATA, 6) {
                _ if zero_rich => t.draw(DATA, 40),
                0 => 0,
                1 => 230,
                2 => 1,
                _ => t.draw(DATA, 231),
            } as usize;
            let mut p = Vec::new();
            for _ in 0 .. n {
                counter += 1;
                // unique addresses, never 0.0.0.0:0
                // several servers per host: consecutive entries often share the IP and differ in the port
                if zero_rich {
                    // unique by construction (counter < 256 in this mode)
                    let c = counter as u8;
                    p.push(match counter % 5 {
                        0 => (Ipv4Addr::new(10, c, 0, 0), u16::from(c) << 8), // ends in three zero bytes
                        1 => (Ipv4Addr::new(0, 0, 0, 0), u16::from(c)),       // starts with five zero bytes
                        2 => (Ipv4Addr::new(0, 0, 0, c), 256),
                        4 => (Ipv4Addr::new(c, 1, 2, 3), 0), // port 0: listed, so part of the listing
                        _ => (Ipv4Addr::new(c, 0, 0, 0), 80),
                    });
                    continue;
                }
                // a server may be listed more than once, also as the last entry of a page - but no address may
                // be the last entry of two pages: the seed alone tells the (stateless) master where to go on
                let last_of_pages: Vec<(Ipv4Addr, u16)> = pages.iter().filter_map(|pg| pg.last().copied()).collect();
                let earlier: Vec<(Ipv4Addr, u16)> = pages.iter().flatten().copied().filter(|a| !last_of_pages.contains(a)).collect();
                if repeats && !earlier.is_empty() && t.draw(DATA, 6) == 0 {
                    p.push(earlier[t.draw(DATA, earlier.len() as u64) as usize]);
                    continue;
                }
                p.push((Ipv4Addr::from(0x0a00_0000 + counter / 3), 27000 + (counter % 3) as u16 + (counter % 7 == 0) as u16 * 100));
            }
            pages.push(p);
        }
        // terminator: last on the last page (normal), or (separately signed) somewhere else
        let odd_terminator = t.draw(CFG, 5) == 0;
        let mut term_pos: Option<(usize, usize)> = None;
        if odd_terminator {
            let pi = t.draw(CFG, npages as u64) as usize;
            let at = t.draw(CFG, pages[pi].len() as u64 + 1) as usize;
            if !(pi == npages - 1 && at == pages[pi].len()) {
                pages[pi].insert(at, (Ipv4Addr::UNSPECIFIED, 0));
                term_pos = Some((pi, at));
            }
        }
        if term_pos.is_none() {
            pages.last_mut().unwrap().push((Ipv4Addr::UNSPECIFIED, 0));
            // now and then the datagram is padded with zero bytes after the terminator (which read as
            // further 0.0.0.0:0 entries): the listing still ends at the first one
            // (a page stays within the 231 entries a master puts into one datagram)
            if t.draw(CFG, 8) == 0 && pages.last().unwrap().len() <= 227 {
                for _ in 0 .. 1 + t.draw(CFG, 3) {
                    pages.last_mut().unwrap().push((Ipv4Addr::UNSPECIFIED, 0));
                }
            }
        }
        // expected listing: all addresses in order up to the first terminator; an empty page ends the listing
        let mut expected: Vec<(IpAddr, u16)> = Vec::new();
        let mut expected_requests = 0usize;
        let mut expected_seeds: Vec<String> = vec!["0.0.0.0:0".to_string()];
        'outer: for p in &pages {
            expected_requests += 1;
            if p.is_empty() {
                break;
            }
            for (ip, port) in p {
                if ip.is_unspecified() && *port == 0 {
                    break 'outer;
                }
                expected.push((IpAddr::V4(*ip), *port));
            }
            let (lip, lport) = p.last().unwrap();
            expected_seeds.push(format!("{lip}:{lport}"));
        }
        expected_seeds.truncate(expected_requests);
        let region = *t.pick(CFG, &REGIONS);
        let call = Call { entry: Entry::MasterQuery { region, filters: None }, ip: SERVER_IP, port: Some(port), default_port: port, timeout: None };
        let sizes: Vec<usize> = pages.iter().map(Vec::len).collect();
        let mut w = World::new(t);
        w.op_budget = 5_000;
        let sidx = w.add_server(addr, Proto::Udp, Box::new(MasterServer { pages, requests: Vec::new(), seeds: Vec::new(), after_end: 0 }));
        let mut run = run_call(w, &call);
        let fam = if term_pos.is_some() { "paging-odd-terminator" } else { "paging" };
        if let Some(c) = &run.crash {
            out.violate(super::crash_violation(&format!("{fam}|"), c));
        }
        let (seeds, after_end) = run.world.server_mut::<MasterServer>(sidx).map(|s| (s.seeds.clone(), s.after_end)).unwrap_or_default();
        match &run.result {
            Some(Ok(Resp::Master(list))) => {
                if *list != expected {
                    let i = list.iter().zip(expected.iter()).position(|(a, b)| a != b).unwrap_or(list.len().min(expected.len()));
                    out.violate(Violation::new(
                        format!("{fam}|listing"),
                        format!("the returned address list differs from the listed addresses up to the terminator (first difference at #{i})"),
                        format!("{} addresses, #{i} = {:?}", expected.len(), expected.get(i)),
                        format!("{} addresses, #{i} = {:?}", list.len(), list.get(i)),
                    ));
                }
            }
            Some(Err(e)) => out.violate(Violation::new(format!("{fam}|error/{:?}", e.kind), "the complete query failed although every page was served", "Ok", e.text.clone())),
            _ => {}
        }
        if run.crash.is_none() && matches!(run.result, Some(Ok(_))) {
            if seeds != expected_seeds {
                let class = if seeds.len() > expected_seeds.len() { "request-after-the-end" } else if seeds.len() < expected_seeds.len() { "stopped-early" } else { "wrong-seed" };
                out.violate(Violation::new(
                    format!("{fam}|seeds/{class}"),
                    "each follow-up request must be seeded with the last address of the previous page, and none may follow the terminator page",
                    format!("{expected_seeds:?}").chars().take(300).collect::<String>(),
                    format!("{seeds:?}").chars().take(300).collect::<String>(),
                ));
            }
        }
        let _ = after_end;
        if sizes.iter().any(|s| *s >= 230) {
            out.probe("page_of_230_entries");
        }
        if sizes.len() == 6 {
            out.probe("six_pages");
        }
        if sizes.iter().any(|s| *s == 0) {
            out.probe("empty_page");
        }
        out.absorb(&run.world);
        out.nontrivial = true;
        out.distinct_key = out.log_hash;
        if detail {
            out.sample = Some(json!({"workload": "paging", "page_sizes_incl_terminator": sizes, "terminator_elsewhere": term_pos, "expected_addresses": expected.len(), "seeds_seen": seeds, "result": describe_result(&run.result, &run.crash).chars().take(200).collect::<String>()}));
            out.schedule = run.world.render_history(30);
        }
        let tape = std::mem::replace(&mut run.world.tape, Tape::replay(Default::default()));
        (out, tape)
    }

    fn exhaustive(&self, _tier: Tier) -> bool { false }

    fn rule(&self) -> String {
        format!("cases 0..{EXHAUSTIVE} enumerate every insertion sequence of length 1, 2 and 3 over 18 filter kinds x {{insert, insert_nand, insert_nor}} (54 + 54^2 + 54^3, exhaustive), cycling through the 9 regions, values from small pools (no backslash or NUL); beyond that, even cases sample sequences of 4-12 insertions and odd cases draw a page history (1-6 pages of 0-230 unique addresses, terminator last on the last page, or - separately signed - at another position); oracle (a): the request parsed by a reference grammar denotes exactly the last-wins filters in exactly their groups, with region byte and seed; oracle (b): listing == addresses up to the terminator, follow-up seeds == last address of the previous page, nothing after the terminator page; distinct = (enumeration index or event-log hash)")
    }

    fn assumptions(&self) -> Vec<String> {
        vec![
            "filter keys and the group grammar follow the Valve 'Master Server Query Protocol' wiki page (spec-derived)".into(),
            "filter maps are compared as maps: the order in which a HashMap emits filters is not part of the property".into(),
            "HasTags is only generated with at least one tag".into(),
        ]
    }

    fn required_probes(&self) -> Vec<&'static str> { vec!["sequences_of_3", "longer_sequences_sampled", "group_of_10_or_more", "page_of_230_entries", "six_pages", "empty_page"] }

    fn components(&self) -> Value { standard_components() }
}

#[allow(dead_code)]
fn unused(_: Region) {}

//! C18 — settings are validated; no accepted configuration can panic.
//! Full configuration matrix: (read, write, connect) in {None, 0, 1 ns, 1 ms,
//! u64::MAX s}^3 x retries in {0, 1, 2, usize::MAX-1, usize::MAX} x
//! construction path {new, Default, clap flags, serde}; every accepted
//! configuration is then used on every protocol entry point.

use super::{standard_components, SERVER_IP};
use crate::entry::{Call, Entry};
use crate::harness::run_call;
use crate::models::gamespy::{Gs1Server, Gs1State, Gs2Server, Gs2State, Gs3Server, Gs3State};
use crate::models::minecraft::{McHost, McTcpServer, McUdpServer, Variant};
use crate::models::misc::{EcoHttp, EcoState, FfowState, MindustryState, OneShotServer, Savage2State};
use crate::models::quake::{QuakeServer, QuakeState};
use crate::models::unreal2::{Unreal2Server, Unreal2State};
use crate::models::valve::{ValveServer, ValveState};
use crate::prop::{CaseOut, Prop, Tier, Violation};
use crate::tape::{Tape, CFG};
use crate::world::{Proto, World};
use clap::Parser;
use gamedig::games::minecraft::LegacyGroup;
use gamedig::protocols::types::TimeoutSettings;
use gamedig::protocols::valve::Engine;
use gamedig::GDErrorKind;
use serde_json::{json, Value};
use std::net::SocketAddr;
use std::time::Duration;

pub struct C18;

#[derive(Clone, Copy, Debug, PartialEq, Eq)]
enum D {
    None,
    Zero,
    Ns,
    Ms,
    Max,
}
const DS: [D; 5] = [D::None, D::Zero, D::Ns, D::Ms, D::Max];
const RETRIES: [usize; 5] = [0, 1, 2, usize::MAX - 1, usize::MAX];
const PATHS: [&str; 4] = ["new", "default", "clap", "serde"];
pub const CELLS: u64 = 125 * 5 * 4;
const ENTRIES: u64 = 19;

impl D {
    fn dur(self) -> Option<Duration> {
        match self {
            D::None => None,
            D::Zero => Some(Duration::ZERO),
            D::Ns => Some(Duration::from_nanos(1)),
            D::Ms => Some(Duration::from_millis(1)),
            D::Max => Some(Duration::from_secs(u64::MAX)),
        }
    }
}

#[derive(Parser, Debug)]
struct ClapProbe {
    #[command(flatten)]
    ts: TimeoutSettings,
}

enum Built {
    Accepted(TimeoutSettings),
    Rejected(String, bool), // (message, is invalid-input class)
    NotExpressible,
    Panicked(String),
}

fn construct(path: &str, r: D, w: D, c: D, retries: usize) -> Built {
    let res = std::panic::catch_unwind(|| {
        match path {
            "new" => {
                match TimeoutSettings::new(r.dur(), w.dur(), c.dur(), retries) {
                    Ok(t) => Built::Accepted(t),
                    Err(e) => Built::Rejected(format!("{:?}", e.kind), e.kind == GDErrorKind::InvalidInput),
                }
            }
            "default" => {
                if r == D::None && w == D::None && c == D::None && retries == 0 {
                    Built::Accepted(TimeoutSettings::default())
                } else {
                    Built::NotExpressible
                }
            }
            "clap" => {
                // flags take whole seconds; None (block forever) and sub-second values cannot be expressed:
                // an omitted flag means the default
                let mut args: Vec<String> = vec!["probe".into()];
                for (flag, d) in [("--read-timeout", r), ("--write-timeout", w), ("--connect-timeout", c)] {
                    match d {
                        D::None => {}
                        D::Zero => args.extend([flag.to_string(), "0".to_string()]),
                        D::Max => args.extend([flag.to_string(), u64::MAX.to_string()]),
                        D::Ns | D::Ms => return Built::NotExpressible,
                    }
                }
                args.extend(["--retries".to_string(), retries.to_string()]);
                match ClapProbe::try_parse_from(args) {
                    Ok(p) => Built::Accepted(p.ts),
                    Err(e) => Built::Rejected(e.kind().to_string(), true),
                }
            }
            _ => {
                let dj = |d: D| {
                    match d.dur() {
                        None => Value::Null,
                        Some(x) => json!({"secs": x.as_secs(), "nanos": x.subsec_nanos()}),
                    }
                };
                let v = json!({"connect": dj(c), "read": dj(r), "write": dj(w), "retries": retries});
                match serde_json::from_value::<TimeoutSettings>(v) {
                    Ok(t) => Built::Accepted(t),
                    Err(e) => Built::Rejected(e.to_string(), true),
                }
            }
        }
    });
    match res {
        Ok(b) => b,
        Err(_) => Built::Panicked("construction panicked".into()),
    }
}

fn entry_world(sel: u64, ts: Option<TimeoutSettings>, silent: bool, t: &mut Tape) -> (Call, World) {
    let port = 20_000 + sel as u16;
    let addr = SocketAddr::new(SERVER_IP, port);
    let call = |entry: Entry| Call { entry, ip: SERVER_IP, port: Some(port), default_port: port, timeout: ts };
    let mut w = World::new(Tape::replay(Default::default()));
    // zero latency: a reply is available at the instant of the request, so that even a 1 ns timeout
    // is met by a server that answers (the cell is about the configuration, not about the network)
    w.net.min_latency = 0;
    let c = match sel {
        0 => {
            if !silent {
                // with or without a challenge round before each reply
                let mut s = ValveServer::new(ValveState::generate(t, false, false, Some(440), 3, 3));
                let rounds = t.draw(CFG, 3) as u8;
                for k in 0 .. 3 {
                    s.enc[k].challenge_rounds = rounds;
                }
                w.add_server(addr, Proto::Udp, Box::new(s));
            }
            call(Entry::Valve { engine: Engine::new(440), gather: None })
        }
        1 => {
            if !silent {
                let st = Gs1State::generate(t, 3);
                let d = st.encode(t, 1, false);
                w.add_server(addr, Proto::Udp, Box::new(Gs1Server::new(d)));
            }
            call(Entry::Gs { version: 1, vars: false })
        }
        2 => {
            if !silent {
                let mut st = Gs2State::generate(t, 3);
                st.fit();
                w.add_server(addr, Proto::Udp, Box::new(Gs2Server { st, outcomes: Vec::new(), attempts: 0, requests: Vec::new() }));
            }
            call(Entry::Gs { version: 2, vars: false })
        }
        3 => {
            if !silent {
                let st = Gs3State::generate(t, 3, false);
                let p = st.payloads(t, 1);
                w.add_server(addr, Proto::Udp, Box::new(Gs3Server::new(st, p)));
            }
            call(Entry::Gs { version: 3, vars: true })
        }
        4 => {
            let version = 1 + (t.draw(CFG, 3) as u8);
            if !silent {
                let mut st = QuakeState::generate(t, version, 3, false);
                st.fit();
                w.add_server(addr, Proto::Udp, Box::new(QuakeServer { st, outcomes: Vec::new(), attempts: 0, requests: Vec::new() }));
            }
            call(Entry::Quake { version })
        }
        5 => {
            if !silent {
                let mut st = Unreal2State::generate(t, 3);
                st.num_players = st.players.len() as u32;
                let r = st.rules_datagrams(1, t);
                let p = st.players_datagrams(1, t);
                w.add_server(addr, Proto::Udp, Box::new(Unreal2Server::new(st.info_datagram(), r, p)));
            }
            call(Entry::Unreal2 { gather: Default::default() })
        }
        6 => {
            if !silent {
                w.add_server(addr, Proto::Tcp, Box::new(McTcpServer::new(McHost::generate(t, vec![Variant::Java]))));
            } else {
                w.add_tcp_listener_mode(addr, crate::world::TcpListen::BlackHole);
            }
            call(Entry::McJava { settings: None })
        }
        7 => {
            if !silent {
                w.add_server(addr, Proto::Udp, Box::new(McUdpServer { host: McHost::generate(t, vec![Variant::Bedrock]), pings: Vec::new(), outcomes: Vec::new(), attempts: 0 }));
            }
            call(Entry::McBedrock)
        }
        8 => {
            if !silent {
                w.add_server(addr, Proto::Tcp, Box::new(McTcpServer::new(McHost::generate(t, vec![Variant::L16]))));
            }
            call(Entry::McLegacySpecific(LegacyGroup::V1_6))
        }
        9 => {
            if !silent {
                w.add_server(addr, Proto::Udp, Box::new(OneShotServer::new(vec![0xfe, 1], MindustryState::generate(t).datagram())));
            }
            call(Entry::Mindustry)
        }
        10 => {
            if !silent {
                w.add_server(addr, Proto::Udp, Box::new(OneShotServer::new(vec![1], Savage2State::generate(t).datagram())));
            }
            call(Entry::Savage2 { with_timeout: true })
        }
        11 => {
            if !silent {
                let mut vs = ValveState::generate(t, false, false, None, 0, 0);
                vs.player_list.clear();
                let mut s = ValveServer::new(vs);
                s.ffow_payload = FfowState::generate(t).payload();
                w.add_server(addr, Proto::Udp, Box::new(s));
            }
            call(Entry::Ffow { with_timeout: true })
        }
        12 => {
            if !silent {
                let mut st = Gs3State::generate(t, 0, true);
                if let Some(l) = &mut st.jc2m {
                    l.truncate(5);
                }
                let p = st.payloads(t, 1);
                w.add_server(addr, Proto::Udp, Box::new(Gs3Server::new(st, p)));
            }
            call(Entry::Jc2m { with_timeout: true })
        }
        13 => {
            if !silent {
                w.add_server(addr, Proto::Udp, Box::new(ValveServer::new(ValveState::generate(t, true, false, Some(2400), 3, 3))));
            }
            call(Entry::TheShip { with_timeout: true })
        }
        14 => {
            if !silent {
                w.http = Some(Box::new(EcoHttp { st: EcoState::generate(t), expect_host: SERVER_IP.to_string(), expect_port: port, requests: Vec::new(), fail: None }));
            }
            // (also with host names in the extra settings that make no URL: empty, a lone bracket)
            call(Entry::Eco { level: *t.pick(CFG, &[1u8, 1, 3, 4, 5]) })
        }
        16 => {
            // extra request settings, whatever the values: host names of awkward lengths (0, around 255
            // bytes with a multi-byte character across the boundary, beyond the protocol's 32767), any
            // protocol version; through the definition-driven and the protocol-level Java query
            if !silent {
                w.add_server(addr, Proto::Tcp, Box::new(McTcpServer::new(McHost::generate(t, vec![Variant::Java]))));
            } else {
                w.add_tcp_listener_mode(addr, crate::world::TcpListen::BlackHole);
            }
            let unit = *t.pick(CFG, &["a", "é", "中", "🎮"]);
            let pad = *t.pick(CFG, &["", "x", "xx", "xxx"]);
            let target = *t.pick(CFG, &[0usize, 1, 127, 128, 254, 255, 256, 257, 300, 16_383, 32_767, 32_768, 70_000]);
            let mut hostname = String::from(pad);
            while hostname.len() < target {
                hostname.push_str(unit);
            }
            let protocol_version = *t.pick(CFG, &[i32::MIN, -1, 0, 47, i32::MAX]);
            if t.draw(CFG, 2) == 0 {
                let extra = gamedig::protocols::types::ExtraRequestSettings { hostname: Some(hostname), protocol_version: Some(protocol_version), gather_players: None, gather_rules: None, check_app_id: None };
                call(Entry::Generic { game_id: "minecraftjava", extra: Some(extra), level: 2 })
            } else {
                call(Entry::McJava { settings: Some(gamedig::games::minecraft::RequestSettings { hostname, protocol_version }) })
            }
        }
        17 => {
            // extra request settings on a Valve game: every toggle combination; one game in three is the one
            // whose rules get a game-specific clean-up (Risk of Rain 2), which must cope with rules that were
            // not gathered
            let (game_id, app) = if t.draw(CFG, 3) == 0 { ("ror2", 632_360) } else { ("teamfortress2", 440) };
            if !silent {
                w.add_server(addr, Proto::Udp, Box::new(ValveServer::new(ValveState::generate(t, false, false, Some(app), 3, 3))));
            }
            call(Entry::Generic { game_id, extra: crate::scenarios::gen_extra(t), level: 2 })
        }
        18 => {
            // the auto-detecting Minecraft query (it derives the settings of its probes from the caller's)
            if !silent {
                // a host every probe gets an answer or a refusal from (a legacy-only host leaves the Java probe
                // waiting for as long as the read timeout allows: for ever when there is none)
                let v = *t.pick(CFG, &[Variant::Java, Variant::Bedrock]);
                if v == Variant::Bedrock {
                    w.add_server(addr, Proto::Udp, Box::new(McUdpServer { host: McHost::generate(t, vec![Variant::Bedrock]), pings: Vec::new(), outcomes: Vec::new(), attempts: 0 }));
                } else {
                    w.add_server(addr, Proto::Tcp, Box::new(McTcpServer::new(McHost::generate(t, vec![v]))));
                }
            } else {
                w.add_tcp_listener_mode(addr, crate::world::TcpListen::BlackHole);
            }
            call(Entry::McAuto { settings: None })
        }
        _ => {
            // the definition-driven dispatch
            if !silent {
                w.add_server(addr, Proto::Udp, Box::new(ValveServer::new(ValveState::generate(t, false, false, Some(440), 3, 3))));
            }
            call(Entry::Generic { game_id: "teamfortress2", extra: None, level: 1 })
        }
    };
    (c, w)
}

impl Prop for C18 {
    fn id(&self) -> &'static str { "C18" }

    fn level(&self) -> &'static str { "fault_enumeration" }

    fn cases(&self, tier: Tier) -> u64 {
        match tier {
            Tier::Quick => CELLS,
            Tier::Thorough => CELLS * 40,
        }
    }

    fn exhaustive(&self, _tier: Tier) -> bool { true }

    fn run_case(&self, idx: u64, mut t: Tape, detail: bool) -> (CaseOut, Tape) {
        let mut out = CaseOut::default();
        let cell = idx % CELLS;
        let mut c = cell;
        let r = DS[(c % 5) as usize];
        c /= 5;
        let w = DS[(c % 5) as usize];
        c /= 5;
        let cn = DS[(c % 5) as usize];
        c /= 5;
        let retries = RETRIES[(c % 5) as usize];
        c /= 5;
        let path = PATHS[(c % 4) as usize];
        let any_zero = [r, w, cn].contains(&D::Zero);
        let desc = format!("path={path} read={r:?} write={w:?} connect={cn:?} retries={retries}");
        let built = construct(path, r, w, cn, retries);
        let mut runs_done = Vec::new();
        match built {
            Built::NotExpressible => {
                out.skipped = Some("configuration not expressible through this construction path");
            }
            Built::Panicked(m) => out.violate(Violation::new(format!("{path}|construction-panic"), format!("[{desc}] {m}"), "Ok or Err", "panic")),
            Built::Rejected(msg, invalid_input) => {
                out.probe("configuration_rejected");
                if !any_zero {
                    out.violate(Violation::new(format!("{path}|rejects-valid"), format!("[{desc}] a configuration without a zero duration was rejected"), "accepted", msg));
                } else if !invalid_input {
                    out.violate(Violation::new(format!("{path}|wrong-rejection-kind"), format!("[{desc}] zero duration rejected with something other than invalid input"), "InvalidInput", msg));
                }
            }
            Built::Accepted(ts) => {
                out.probe("configuration_accepted");
                if any_zero {
                    out.violate(Violation::new(
                        format!("{path}|accepts-zero-duration"),
                        format!("[{desc}] a zero duration was accepted by this construction path"),
                        "rejected with an invalid-input error",
                        format!("{ts:?}"),
                    ));
                }
                // use it on every protocol entry point; with small retry counts also against silence
                for sel in 0 .. ENTRIES {
                    for silent in [false, true] {
                        if silent && (retries > 2 || r == D::None || r == D::Max || cn == D::Max) {
                            continue;
                        }
                        let (call, world) = entry_world(sel, Some(ts), silent, &mut t);
                        let run = run_call(world, &call);
                        out.absorb(&run.world);
                        if let Some(cr) = &run.crash {
                            if matches!(cr, crate::harness::Crash::BlockedForever) && r == D::None {
                                // documented: None blocks indefinitely
                                continue;
                            }
                            out.violate(Violation::new(
                                format!("use|{}", cr.signature()),
                                format!("[{desc}] query through {} with this accepted configuration: {}", call.entry.family(), cr.describe()),
                                "Ok or Err",
                                cr.describe(),
                            ));
                        }
                        if runs_done.len() < 4 {
                            runs_done.push(json!({"entry": call.entry.family(), "silent_server": silent, "result": super::describe_result(&run.result, &run.crash).chars().take(80).collect::<String>()}));
                        }
                    }
                }
            }
        }
        out.nontrivial = out.skipped.is_none();
        out.distinct_key = crate::rng::mix(&[cell, out.log_hash]);
        if detail {
            out.sample = Some(json!({"cell": desc, "zero_duration_present": any_zero, "queries": runs_done}));
        }
        (out, t)
    }

    fn rule(&self) -> String {
        format!("case index enumerates all {CELLS} cells = 5^3 (read, write, connect) values from {{None, 0, 1 ns, 1 ms, u64::MAX s}} x 5 retry counts {{0, 1, 2, usize::MAX-1, usize::MAX}} x 4 construction paths (TimeoutSettings::new, Default, a clap parser flattening TimeoutSettings, serde_json); cells a path cannot express (sub-second or None through whole-second flags, non-default through Default) are skipped and counted; every accepted configuration is used for a query on 19 entry points (every protocol family, the auto-detecting Minecraft query, Eco, the definition-driven dispatch, and two with extra request settings: Java host names of 0 to 70000 bytes with multi-byte characters across the 255-byte and 32767 boundaries and any protocol version, and every gather-toggle combination on a Valve game) against a server that answers the first attempt and, for retries <= 2 and finite timeouts, against a silent one; the simulated OS rejects zero timeouts as the kernel does; oracle: construction rejects exactly the zero-duration cells with an invalid-input error, no construction and no query panics; distinct = (cell, event-log hash)")
    }

    fn assumptions(&self) -> Vec<String> {
        vec![
            "huge retry counts are never combined with a silent server (the property demands no panic, not 2^64 attempts)".into(),
            "a read timeout of None with a silent server legitimately blocks (documented) and is not a violation".into(),
            "the real command-line binary is exercised with zero and non-numeric timeout flags by C19".into(),
        ]
    }

    fn required_probes(&self) -> Vec<&'static str> { vec!["configuration_rejected", "configuration_accepted"] }

    fn components(&self) -> Value { standard_components() }
}

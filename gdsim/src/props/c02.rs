//! C02 — Valve A2S replies are decoded field for field (fault-free simulation
//! against the reference-model server).

use super::{compare, describe_call, describe_result, standard_components, SERVER_IP};
use crate::entry::{Call, Entry, VALVE_GAMES};
use crate::gen;
use crate::harness::run_call;
use crate::models::valve::{self as vm, Split, ValveServer, ValveState};
use crate::prop::{CaseOut, Prop, Tier, Violation};
use crate::tape::{Tape, CFG};
use crate::world::{Proto, World};
use gamedig::protocols::types::GatherToggle;
use gamedig::protocols::valve::{self, Engine, GatheringSettings};
use serde_json::{json, Value};
use std::net::SocketAddr;

pub struct C02;

pub fn no_size_quirk(engine: &Engine, protocol: u8) -> bool { protocol == 7 && *engine == Engine::new(240) }

/// Build the expected `game::Response` from the state by the documented
/// projection (RESPONSES.md / the struct's field docs), not by calling gamedig.
pub fn expected_game_response(st: &ValveState, engine: &Engine, gs: &GatheringSettings) -> Value {
    let r = vm::expected_response(st, engine, gs);
    let info = r.info;
    let (port, steam_id, tv_port, tv_name, keywords) = match info.extra_data {
        Some(e) => (e.port, e.steam_id, e.tv_port, e.tv_name, e.keywords),
        None => (None, None, None, None, None),
    };
    json!({
        "protocol": info.protocol_version,
        "name": info.name,
        "map": info.map,
        "game": info.game_mode,
        "appid": info.appid,
        "players_online": info.players_online,
        "players_details": r.players.unwrap_or_default().iter().map(|p| json!({"name": p.name, "score": p.score, "duration": p.duration})).collect::<Vec<_>>(),
        "players_maximum": info.players_maximum,
        "players_bots": info.players_bots,
        "server_type": info.server_type,
        "has_password": info.has_password,
        "vac_secured": info.vac_secured,
        "version": info.game_version,
        "port": port,
        "steam_id": steam_id,
        "tv_port": tv_port,
        "tv_name": tv_name,
        "keywords": keywords,
        "rules": r.rules.unwrap_or_default(),
    })
}

pub fn enc_class(srv: &ValveServer) -> String {
    let f = |e: &vm::KindEnc| {
        match e.split {
            Split::Single => "single",
            Split::Source { with_size: true } => "split-source",
            Split::Source { with_size: false } => "split-source-nosize",
            Split::SourceCompressed => "split-compressed",
            Split::GoldSrc => "split-goldsrc",
        }
    };
    format!("{}/{}/{}", f(&srv.enc[0]), f(&srv.enc[1]), f(&srv.enc[2]))
}

/// A drawn Valve scenario: entry point, settings, server state and transport.
pub struct ValveScn {
    /// compressed forms for players / rules when their transport is the compressed split
    pub compressed: [Option<vm::Compressed>; 3],
    pub call: Call,
    pub engine: Engine,
    pub gs: GatheringSettings,
    pub st: ValveState,
    pub enc: [vm::KindEnc; 3],
    pub goldsrc: bool,
    pub quirk: bool,
    pub via_game_module: bool,
    pub ship: bool,
    pub port: Option<u16>,
    pub default_port: u16,
}

impl ValveScn {
    pub fn server(&self) -> ValveServer {
        let mut srv = ValveServer::new(self.st.clone());
        srv.goldsrc_transport = self.goldsrc;
        srv.split_no_size = self.quirk;
        srv.enc[0] = self.enc[0].clone();
        srv.enc[1] = self.enc[1].clone();
        srv.enc[2] = self.enc[2].clone();
        for k in 0 .. 3 {
            srv.compressed[k] = self.compressed[k].clone();
        }
        srv
    }

    pub fn addr(&self) -> SocketAddr { SocketAddr::new(SERVER_IP, self.port.unwrap_or(self.default_port)) }
}

pub fn scenario(t: &mut Tape, max_players: u64) -> ValveScn {
    let via_game_module = t.draw(CFG, 5) == 0;
    // Counter-Strike: Source is the game whose protocol-7 servers leave the size field out of their split
    // packets: that is a fact about the game, not about how the code under test happens to describe it
    let mut is_css = false;
    let (engine, gather, entry, default_port): (Engine, Option<GatheringSettings>, Entry, u16) = if via_game_module {
        // (one module case in eight is that game)
        let i = match VALVE_GAMES.iter().position(|r| r.module == "css") {
            Some(css) if t.draw(CFG, 8) == 0 => css,
            _ => t.draw(CFG, VALVE_GAMES.len() as u64) as usize,
        };
        let row = &VALVE_GAMES[i];
        is_css = row.module == "css";
        ((row.engine)(), Some((row.gather)()), Entry::ValveGame(i), crate::golden::module_port(row.module, row.port))
    } else {
        let engine = match t.draw(CFG, 10) {
            0 => Engine::Source(None),
            1 => Engine::new(440),
            2 => Engine::new(240),
            3 => Engine::new(2400),
            4 => Engine::new(632_360),
            5 => Engine::new_with_dedicated(730, 740),
            6 => Engine::new(1_874_880),
            7 => Engine::GoldSrc(false),
            8 => Engine::GoldSrc(true),
            _ => Engine::new(t.draw(CFG, 1 << 24) as u32),
        };
        let gather = if t.draw(CFG, 3) == 0 {
            None
        } else {
            Some(GatheringSettings { players: gen::toggle(t), rules: gen::toggle(t), check_app_id: t.draw(CFG, 2) == 0 })
        };
        (engine, gather, Entry::Valve { engine, gather }, 27015)
    };
    let gs = gather.unwrap_or_default();
    let port = if t.draw(CFG, 2) == 0 { None } else { Some(1024 + t.draw(CFG, 60000) as u16) };
    let timeout = if via_game_module { None } else { gen::timeouts_long(t, 2) };
    let goldsrc = matches!(engine, Engine::GoldSrc(_));
    let obsolete = matches!(engine, Engine::GoldSrc(true));
    let ship = engine == Engine::new(2400);
    // the server reports an id the caller expects (main or dedicated), so that the
    // app-id check cannot be the reason for a failure here (C11 owns that)
    let appid = match engine {
        Engine::Source(Some((main, ded))) => {
            Some(match ded {
                Some(d) if t.draw(CFG, 2) == 1 => d,
                _ => main,
            })
        }
        _ => None,
    };
    let many_rules = !goldsrc && max_players == 255 && t.draw(CFG, 200) == 199;
    let mut st = ValveState::generate(t, ship, obsolete, appid, max_players, 300);
    if many_rules {
        st.compact_rules(65_535);
    }
    st.fit(goldsrc);
    if (engine == Engine::new(240) || is_css) && t.draw(CFG, 2) == 0 {
        st.protocol = 7;
    }
    let quirk = no_size_quirk(&engine, st.protocol) || (is_css && st.protocol == 7);
    let mut enc = [vm::gen_enc(t, goldsrc, !quirk), vm::gen_enc(t, goldsrc, true), vm::gen_enc(t, goldsrc, true)];
    // bzip2-compressed split (Source engine only): the reply comes from the python-built pool
    let mut compressed: [Option<vm::Compressed>; 3] = [None, None, None];
    if !goldsrc && !quirk && max_players == 255 {
        for (k, want_rules) in [(2usize, true), (1usize, false)] {
            if t.draw(CFG, 12) == 0 {
                if let Some(c) = st.adopt_pool_entry(t, want_rules) {
                    // small compressed answers also travel in a single split packet
                    if c.bz2.len() < 1300 && t.draw(CFG, 3) == 0 {
                        enc[k].frags = 1;
                    }
                    compressed[k] = Some(c);
                    enc[k].split = Split::SourceCompressed;
                }
            }
        }
    }
    let call = Call { entry, ip: SERVER_IP, port, default_port, timeout };
    ValveScn { compressed, call, engine, gs, st, enc, goldsrc, quirk, via_game_module, ship, port, default_port }
}

impl Prop for C02 {
    fn id(&self) -> &'static str { "C02" }

    fn level(&self) -> &'static str { "exploration" }

    fn cases(&self, tier: Tier) -> u64 {
        match tier {
            Tier::Quick => 60_000,
            Tier::Thorough => 3_000_000,
        }
    }

    fn run_case(&self, _idx: u64, mut t: Tape, detail: bool) -> (CaseOut, Tape) {
        let mut out = CaseOut::default();
        let ValveScn { compressed, call, engine, gs, st, enc, goldsrc, quirk, via_game_module, ship, port, default_port } = scenario(&mut t, 255);
        let family = if ship { "valve-ship".to_string() } else { call.entry.family() };
        let expected = if via_game_module {
            expected_game_response(&st, &engine, &gs)
        } else {
            serde_json::to_value(vm::normalise_response(vm::expected_response(&st, &engine, &gs))).unwrap()
        };
        let build = |t: Tape, enc: &[vm::KindEnc; 3]| {
            let mut srv = ValveServer::new(st.clone());
            srv.goldsrc_transport = goldsrc;
            srv.split_no_size = quirk;
            srv.enc[0] = enc[0].clone();
            srv.enc[1] = enc[1].clone();
            srv.enc[2] = enc[2].clone();
            for k in 0 .. 3 {
                srv.compressed[k] = compressed[k].clone();
            }
            let mut w = World::new(t);
            let sidx = w.add_server(SocketAddr::new(SERVER_IP, port.unwrap_or(default_port)), Proto::Udp, Box::new(srv));
            (w, sidx)
        };
        // ---- run
        let (w, sidx) = build(t, &enc);
        let mut run = run_call(w, &call);
        // normalise the observed extra_data representation
        if let Some(Ok(crate::entry::Resp::Valve(r))) = &mut run.result {
            *r = vm::normalise_response(r.clone());
        }
        if st.player_list.len() == 255 {
            out.probe("255_players");
        }
        if st.rules.len() > 10_000 {
            out.probe("over_10000_rules");
        }
        if srv_rounds(&mut run.world, sidx) >= 3 {
            out.probe("three_challenge_rounds_on_one_request");
        }
        let encc = run
            .world
            .server_mut::<ValveServer>(sidx)
            .map(|s| s.used_transport.iter().map(|(_, c)| *c).collect::<Vec<_>>().join("/"))
            .unwrap_or_default();
        // ---- oracle, with differential attribution: a failure under a split or challenged
        // transport is re-run with the plainest transport; if it persists it is a decoding
        // defect (signature by field), otherwise a transport defect (signature by transport).
        let mut first = CaseOut::default();
        compare(&mut first, &family, "valve query", &expected, &run);
        if !first.violations.is_empty() {
            let plain = [vm::KindEnc::simple(), vm::KindEnc::simple(), vm::KindEnc::simple()];
            let was_plain = !encc.contains("split") && enc.iter().all(|e| e.challenge_rounds == 0);
            if was_plain {
                for v in first.violations {
                    out.violate(v);
                }
            } else {
                // same scenario, plainest transport, lists trimmed until every reply fits one datagram
                let mut st2 = st.clone();
                st2.trim_to(vm::MTU);
                let expected2 = if via_game_module {
                    expected_game_response(&st2, &engine, &gs)
                } else {
                    serde_json::to_value(vm::normalise_response(vm::expected_response(&st2, &engine, &gs))).unwrap()
                };
                let mut srv = ValveServer::new(st2);
                srv.goldsrc_transport = goldsrc;
                srv.split_no_size = quirk;
                let _ = &plain;
                let mut w2 = World::new(Tape::replay(Default::default()));
                w2.add_server(SocketAddr::new(SERVER_IP, port.unwrap_or(default_port)), Proto::Udp, Box::new(srv));
                let mut run2 = run_call(w2, &call);
                if let Some(Ok(crate::entry::Resp::Valve(r))) = &mut run2.result {
                    *r = vm::normalise_response(r.clone());
                }
                let mut second = CaseOut::default();
                compare(&mut second, &family, "valve query", &expected2, &run2);
                out.absorb(&run2.world);
                if second.violations.is_empty() {
                    let rounds = enc.iter().map(|e| e.challenge_rounds).max().unwrap_or(0);
                    for mut v in first.violations {
                        v.what = format!("{} (the same scenario decodes correctly over single datagrams without challenge)", v.what);
                        v.signature = if encc.contains("split-compressed") {
                            // one code path (SplitPacket::get_payload) whatever the entry point
                            "valve|transport:split-compressed".to_string()
                        } else {
                            format!("{family}|transport:{}{}", transport_of_failure(&encc), if rounds > 0 && !encc.contains("split") { "+challenge" } else { "" })
                        };
                        out.violate(v);
                    }
                } else {
                    for v in second.violations {
                        out.violate(v);
                    }
                }
            }
        }
        out.absorb(&run.world);
        // ---- fault configuration, kept apart from the fault-free one above: one late duplicate. One case
        // in four whose replies all fit single datagrams (duplicated fragments belong to C08) is run again
        // with the n-th datagram of the server delivered a second time 1.5 to 6.5 one-way latencies after
        // its first arrival, so that it lands in a later step of the exchange (after the next request's
        // challenge, say). The server still answers as specified; the oracle is relaxed narrowly: the query
        // may fail, and a players or rules section may be absent, but nothing it returns may differ from the
        // server's state.
        let mut dup_schedule: Option<Vec<String>> = None;
        if out.violations.is_empty() && run.crash.is_none() && !encc.contains("split") && _idx % 4 == 3 {
            let (mut w, sidx3) = build(Tape::generate(_idx ^ 0x6c61_7465_6475_70), &enc);
            // the model's habit of answering a wrong echo with a FRESH challenge makes two request chains set
            // going by a duplicated challenge invalidate each other for ever (the client's challenge loop is
            // unbounded); real servers keep one challenge per client address for a while, so this
            // configuration uses that behaviour
            if let Some(s) = w.server_mut::<ValveServer>(sidx3) {
                s.stable_challenge = true;
            }
            let n = (_idx / 4) % 8;
            let k = (_idx / 32) % 6 + 1;
            let lat = w.net.min_latency.max(1);
            w.net.late_dup = Some((n, k * lat + lat / 2));
            let mut run3 = run_call(w, &call);
            if let Some(Ok(crate::entry::Resp::Valve(r))) = &mut run3.result {
                *r = vm::normalise_response(r.clone());
            }
            let fired = run3.world.stats.faults.get("late_dup_reply").copied().unwrap_or(0) > 0;
            if fired {
                out.probe("late_duplicate_delivered");
            }
            if let Some(c) = &run3.crash {
                out.violate(super::crash_violation(&format!("{family}|late-duplicate|"), c));
            } else if let Some(Ok(r)) = &run3.result {
                let obs = r.to_json();
                let mut exp = expected.clone();
                for key in ["players", "rules", "players_details"] {
                    let absent = match obs.get(key) {
                        Some(Value::Null) => true,
                        Some(Value::Array(a)) => a.is_empty(),
                        Some(Value::Object(o)) => o.is_empty(),
                        _ => false,
                    };
                    if absent && exp.get(key).is_some() {
                        exp[key] = obs[key].clone();
                        out.probe("late_duplicate_cost_a_section");
                    }
                }
                if let Some((path, e, o)) = crate::harness::json_diff(&exp, &obs) {
                    out.violate(Violation::new(
                        format!("{family}|late-duplicate|{}", crate::harness::path_class(&path)),
                        format!("valve query with one late duplicate of datagram {n} of the server: field {path} differs from what the server sent (a failed or missing section would be allowed, a wrong one is not)"),
                        e,
                        o,
                    ));
                }
            } else if fired {
                out.probe("late_duplicate_failed_the_query");
            }
            out.absorb(&run3.world);
            if detail && !out.violations.is_empty() {
                dup_schedule = Some(run3.world.render_history(200));
            }
        }
        out.distinct_key = out.log_hash;
        if detail {
            out.sample = Some(json!({
                "call": describe_call(&call),
                "engine": format!("{engine:?}"),
                "gather": format!("{gs:?}"),
                "server_state": {"name": st.name, "map": st.map, "protocol": st.protocol, "edf": st.edf, "players": st.player_list.len(), "rules": st.rules.len(), "obsolete_info": st.obsolete_info, "ship": st.ship.is_some(), "reported_appid": st.reported_appid()},
                "transport(info/players/rules)": encc,
                "result": describe_result(&run.result, &run.crash),
            }));
            out.schedule = run.world.render_history(200);
            if let Some(d) = dup_schedule {
                out.schedule.push("---- the same scenario with one late duplicate ----".to_string());
                out.schedule.extend(d);
            }
        }
        let tape = std::mem::replace(&mut run.world.tape, Tape::replay(Default::default()));
        (out, tape)
    }

    fn rule(&self) -> String {
        "each case draws an entry point (valve::query with an engine variant and gather settings, or one of the macro-generated game modules), a server state in the specification's domain (strings, numeric ranges, EDF flags, players, rules, The Ship / obsolete GoldSrc layouts) and a transport encoding per request (0-3 challenge rounds; single / Source split / GoldSrc split with 2-8 random fragment boundaries; datagrams above 1400 bytes are always split); a case is non-trivial if the client received at least one reply; distinct = distinct hash of the complete event log (all request and reply bytes)".to_string()
    }

    fn assumptions(&self) -> Vec<String> {
        vec![
            "the reference encoder follows the Valve developer wiki 'Server queries' page; it was written from that description, not from the parser".into(),
            "fault-free configuration: constant latency, FIFO delivery, no loss (decode correctness must not be hidden behind fault relaxations)".into(),
            "bzip2-compressed split replies come from a pool built by python3 bz2 (tools/bz2pool.py, committed as gdsim/data/bz2pool.json): no bzip2 encoder is available offline in Rust; the model checks that its own encoding of the pool state is byte-identical to what python compressed".into(),
            "A2S_INFO replies are not split for the protocol-7 / app-240 header quirk (the client cannot know the protocol before the info reply)".into(),
            "extra_data is None exactly when the reply ends before the extra-data flag byte, and Some (every member None for flag byte 0) otherwise".into(),
        ]
    }

    fn required_probes(&self) -> Vec<&'static str> { vec!["split_reply", "challenge_issued", "255_players", "split_6_or_more_fragments", "compressed_split_reply"] }

    fn components(&self) -> Value { standard_components() }
}

fn srv_rounds(w: &mut World, idx: usize) -> usize {
    w.server_mut::<ValveServer>(idx).map_or(0, |s| {
        let mut best = 0;
        for k in [vm::Kind::Info, vm::Kind::Players, vm::Kind::Rules] {
            best = best.max(s.issued.iter().filter(|(kk, _)| *kk == k).count());
        }
        best
    })
}

/// Transport class used in signatures (so that a split-reassembly defect and a
/// field-order defect get different signatures).
fn transport_of_failure(encc: &str) -> String {
    if encc.contains("split") {
        let mut kinds: Vec<&str> = encc.split('/').filter(|s| s.starts_with("split")).collect();
        kinds.sort();
        kinds.dedup();
        kinds.join("+")
    } else {
        "single".to_string()
    }
}

#[allow(dead_code)]
fn unused(_: GatherToggle, _: valve::Response) {}

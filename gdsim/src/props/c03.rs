//! C03 — Minecraft status replies decode exactly; auto-detect order holds.

use super::{run_built, standard_components, Built, SERVER_IP};
use crate::entry::{Call, Entry};
use crate::gen;
use crate::models::minecraft::{McHost, McTcpServer, McUdpServer, Variant, ORDER};
use crate::prop::{CaseOut, Prop, Tier, Violation};
use crate::scenarios::gen_mc_settings;
use crate::tape::{Tape, CFG};
use crate::world::{Hist, Proto, TcpListen, World};
use gamedig::games::minecraft::LegacyGroup;
use serde_json::{json, Value};
use std::net::SocketAddr;

pub struct C03;

const ENTRIES: u64 = 12;

fn norm(e: &mut Value, o: &mut Value) {
    // the description may be returned as the string or as its JSON text
    let exp = e["description"].clone();
    if let Some(s) = o["description"].as_str() {
        let same = match serde_json::from_str::<Value>(s) {
            Ok(parsed) => parsed == exp,
            Err(_) => false,
        } || exp.as_str() == Some(s);
        if same {
            o["description"] = exp;
        }
    }
}

pub struct Mc {
    pub built: Built,
    pub expect_err: bool,
    pub expect_auto_err: bool,
    /// expected transport of each probe, in order, for the auto-detecting queries
    pub expected_probes: Option<Vec<(&'static str, Variant)>>,
}

pub fn build(mut t: Tape, subset: u32, entry_sel: u64) -> Mc {
    let speaks: Vec<Variant> = ORDER.iter().enumerate().filter(|(i, _)| subset & (1 << i) != 0).map(|(_, v)| *v).collect();
    let mut host = McHost::generate(&mut t, speaks.clone());
    // a host that does not answer the 1.4 ping in the old format may answer it in the 1.6 format (servers
    // from 1.6 on do): the query for 1.4 then returns that reply, as what it is
    let answers_14_as_16 = entry_sel >= 8 && !speaks.contains(&Variant::L14) && speaks.contains(&Variant::L16) && t.draw(CFG, 3) == 0;
    if answers_14_as_16 {
        host.unspoken.insert(Variant::L14, crate::models::minecraft::Unspoken::As16);
    }
    let port = if t.draw(CFG, 2) == 0 { None } else { Some(1024 + t.draw(CFG, 60_000) as u16) };
    let lg = |v: Variant| {
        match v {
            Variant::L16 => LegacyGroup::V1_6,
            Variant::L14 => LegacyGroup::V1_4,
            _ => LegacyGroup::VB1_8,
        }
    };
    let legacy = [Variant::L16, Variant::L14, Variant::LB18];
    let first_legacy = legacy.iter().copied().find(|v| speaks.contains(v));
    let (entry, takes_timeout, udp_default, expected, expect_err, auto): (Entry, bool, u16, Value, bool, Option<Vec<Variant>>) = match entry_sel {
        0 => {
            let a = host.expected_auto();
            (Entry::McAuto { settings: gen_mc_settings(&mut t) }, true, 25565, a.clone().map_or(Value::Null, |x| x.1), a.is_none(), Some(ORDER.to_vec()))
        }
        1 => {
            let a = host.expected_auto();
            (Entry::McGameAuto, false, 19132, a.clone().map_or(Value::Null, |x| x.1), a.is_none(), Some(ORDER.to_vec()))
        }
        2 => (Entry::McJava { settings: gen_mc_settings(&mut t) }, true, 25565, host.java.expected(), !speaks.contains(&Variant::Java), None),
        3 => (Entry::McGameJava { settings: gen_mc_settings(&mut t) }, false, 25565, host.java.expected(), !speaks.contains(&Variant::Java), None),
        4 => (Entry::McBedrock, true, 19132, host.bedrock.expected(), !speaks.contains(&Variant::Bedrock), None),
        5 => (Entry::McGameBedrock, false, 19132, host.bedrock.expected(), !speaks.contains(&Variant::Bedrock), None),
        6 => (Entry::McLegacy, true, 25565, first_legacy.map_or(Value::Null, |v| host.legacy.expected(v)), first_legacy.is_none(), Some(legacy.to_vec())),
        7 => (Entry::McGameLegacy, false, 25565, first_legacy.map_or(Value::Null, |v| host.legacy.expected(v)), first_legacy.is_none(), Some(legacy.to_vec())),
        n => {
            let v = legacy[(n as usize - 8) % 3];
            let game_level = n >= 11 || t.draw(CFG, 2) == 1;
            let e = if game_level { Entry::McGameLegacySpecific(lg(v)) } else { Entry::McLegacySpecific(lg(v)) };
            if v == Variant::L14 && answers_14_as_16 {
                (e, !game_level, 25565, host.legacy.expected(Variant::L16), false, None)
            } else {
                (e, !game_level, 25565, host.legacy.expected(v), !speaks.contains(&v), None)
            }
        }
    };
    let default_port = match entry {
        Entry::McBedrock | Entry::McGameBedrock => 19132,
        _ => 25565,
    };
    let timeout = if takes_timeout { gen::timeouts_long(&mut t, 0) } else { None };
    let call = Call { entry: entry.clone(), ip: SERVER_IP, port, default_port, timeout };
    let tcp_port = port.unwrap_or(25565);
    // the game-level auto query probes Bedrock on the Bedrock default port when no port is given
    let udp_port = port.unwrap_or(udp_default);
    let any_tcp = speaks.iter().any(|v| *v != Variant::Bedrock);
    let tcp_mode = if any_tcp {
        TcpListen::Accept
    } else {
        *t.pick(CFG, &[TcpListen::Accept, TcpListen::Refuse, TcpListen::BlackHole])
    };
    let segment = t.draw(CFG, 2) == 1;
    let detail = json!({"speaks": format!("{speaks:?}"), "unspoken": format!("{:?}", host.unspoken), "tcp_port_mode": format!("{tcp_mode:?}"), "tcp_segmentation": segment,
        "java_status_bytes": host.java.status_packet().len(), "bedrock_status": host.bedrock.status()});
    let expected_probes = auto.map(|order| {
        let mut v = Vec::new();
        for var in order {
            v.push((if var == Variant::Bedrock { "udp" } else { "tcp" }, var));
            if speaks.contains(&var) {
                break;
            }
        }
        v
    });
    let mut w = World::new(t);
    if segment {
        w.net.tcp_segment_ppm = 600_000;
    }
    match tcp_mode {
        TcpListen::Accept => {
            w.add_server(SocketAddr::new(SERVER_IP, tcp_port), Proto::Tcp, Box::new(McTcpServer::new(host.clone())));
        }
        m => {
            w.add_tcp_listener_mode(SocketAddr::new(SERVER_IP, tcp_port), m);
        }
    }
    w.add_server(SocketAddr::new(SERVER_IP, udp_port), Proto::Udp, Box::new(McUdpServer { host, pings: Vec::new(), outcomes: Vec::new(), attempts: 0 }));
    let family = call.entry.family();
    Mc {
        built: Built { call, world: w, expected, family, normalise: Some(norm), detail },
        expect_err,
        expect_auto_err: expect_err && matches!(entry, Entry::McAuto { .. } | Entry::McGameAuto | Entry::McLegacy | Entry::McGameLegacy),
        expected_probes,
    }
}

fn classify_write(d: &[u8]) -> Variant {
    if d.starts_with(&[0xfe, 0x01, 0xfa]) {
        Variant::L16
    } else if d == [0xfe, 0x01] {
        Variant::L14
    } else if d == [0xfe] {
        Variant::LB18
    } else {
        Variant::Java
    }
}

/// The sequence of probes the client made, from the history: (transport, variant if identifiable).
pub fn observed_probes(w: &World) -> Vec<(&'static str, Option<Variant>)> {
    let mut out: Vec<(&'static str, Option<Variant>)> = Vec::new();
    let mut sock_idx: std::collections::HashMap<u64, usize> = std::collections::HashMap::new();
    for h in &w.hist {
        match h {
            Hist::TcpConnect { sock, result, .. } => {
                out.push(("tcp", None));
                if *result == "connected" {
                    sock_idx.insert(*sock, out.len() - 1);
                }
            }
            Hist::UdpBind { sock, .. } => {
                out.push(("udp", None));
                sock_idx.insert(*sock, out.len() - 1);
            }
            Hist::TcpWrite { sock, data, .. } => {
                if let Some(i) = sock_idx.get(sock) {
                    if out[*i].1.is_none() {
                        out[*i].1 = Some(classify_write(data));
                    }
                }
            }
            Hist::UdpSend { sock, data, .. } => {
                if let Some(i) = sock_idx.get(sock) {
                    if out[*i].1.is_none() && data.len() == 33 && data[0] == 1 {
                        out[*i].1 = Some(Variant::Bedrock);
                    }
                }
            }
            _ => {}
        }
    }
    out
}

impl Prop for C03 {
    fn id(&self) -> &'static str { "C03" }

    fn level(&self) -> &'static str { "exploration" }

    fn cases(&self, tier: Tier) -> u64 {
        match tier {
            Tier::Quick => 32 * ENTRIES * 100,
            Tier::Thorough => 32 * ENTRIES * 6000,
        }
    }

    fn exhaustive(&self, _tier: Tier) -> bool { false }

    fn run_case(&self, idx: u64, t: Tape, detail: bool) -> (CaseOut, Tape) {
        let mut out = CaseOut::default();
        let subset = (idx % 32) as u32;
        let entry_sel = (idx / 32) % ENTRIES;
        let mc = build(t, subset, entry_sel);
        let family = mc.built.family.clone();
        let expected_probes = mc.expected_probes.clone();
        let (expect_err, expect_auto_err) = (mc.expect_err, mc.expect_auto_err);
        if subset == 0 {
            out.probe("server_speaks_no_variant");
        }
        if subset == 31 {
            out.probe("server_speaks_all_variants");
        }
        let mut run = if expect_err {
            // the query must fail cleanly (with AutoQuery for the auto-detecting ones)
            let call = mc.built.call.clone();
            let d = mc.built.detail.clone();
            let run = crate::harness::run_call(mc.built.world, &call);
            if let Some(c) = &run.crash {
                out.violate(super::crash_violation(&format!("{family}|"), c));
            }
            match &run.result {
                Some(Ok(r)) => {
                    out.violate(Violation::new(
                        format!("{family}|ok-from-a-variant-the-server-does-not-speak"),
                        "the query succeeded although the server does not speak the queried variant(s)",
                        "Err",
                        r.to_json().to_string().chars().take(200).collect::<String>(),
                    ))
                }
                Some(Err(e)) => {
                    if expect_auto_err && e.kind != gamedig::GDErrorKind::AutoQuery {
                        out.violate(Violation::new(
                            format!("{family}|wrong-error-kind/{:?}", e.kind),
                            "auto-detecting query failed with a kind other than AutoQuery although no variant answered",
                            "AutoQuery",
                            format!("{:?}", e.kind),
                        ));
                    }
                }
                None => {}
            }
            out.absorb(&run.world);
            out.distinct_key = out.log_hash;
            // a failing query against a silent host is still a non-trivial auto-detect case
            out.nontrivial = true;
            if detail {
                out.sample = Some(json!({"call": super::describe_call(&call), "scenario": d, "result": super::describe_result(&run.result, &run.crash)}));
                out.schedule = run.world.render_history(200);
            }
            run
        } else {
            run_built(&mut out, mc.built, "minecraft query", detail)
        };
        // probe order
        if let Some(exp) = expected_probes {
            let obs = observed_probes(&run.world);
            let ok = obs.len() == exp.len()
                && obs.iter().zip(exp.iter()).all(|((ot, ov), (et, ev))| ot == et && ov.map_or(true, |v| v == *ev));
            if !ok {
                out.violate(Violation::new(
                    format!("{family}|probe-order"),
                    "the auto-detecting query did not probe exactly Java, Bedrock, 1.6, 1.4, b1.8 in that order up to and including the answering variant",
                    format!("{exp:?}"),
                    format!("{obs:?}"),
                ));
            }
        }
        let tape = std::mem::replace(&mut run.world.tape, Tape::replay(Default::default()));
        (out, tape)
    }

    fn rule(&self) -> String {
        "case index enumerates all 32 subsets of {Java, Bedrock, 1.6, 1.4, b1.8} a host may speak x 12 entry points (protocol-level and game-level auto, java, bedrock, legacy, legacy-specific x3); the tape draws how each unspoken variant manifests (silent / close / garbage / wrong-variant reply; TCP port refusing or black-holing when no TCP variant is spoken), the status values (arbitrary JSON strings incl. control and non-ASCII characters, optional members, u32 counts, i32 protocol, sample list, favicon, chat flags; Bedrock 6-10 fields and every game mode; UTF-16BE legacy strings), request settings and TCP segmentation; oracle: exact status of the matching variant, first-answering variant and label for the auto-detecting queries, AutoQuery iff none answers, and the probe sequence from the connection log; non-trivial = a reply was received or the host spoke nothing queried; distinct = distinct event-log hash".to_string()
    }

    fn assumptions(&self) -> Vec<String> {
        vec![
            "formats follow wiki.vg Server List Ping and the RakNet unconnected pong (spec-derived); legacy request literals are code-derived".into(),
            "'1.4' means the old motd§online§max format in reply to FE 01, 'b1.8' the same in reply to FE, '1.6' the §1 format in reply to FE 01 FA (DESIGN.md appendix A)".into(),
            "the Java description may be returned as the string or as its JSON text".into(),
            "the model server answers the status request, then the ping, then closes (read_to_end needs the FIN)".into(),
        ]
    }

    fn required_probes(&self) -> Vec<&'static str> { vec!["server_speaks_no_variant", "server_speaks_all_variants", "tcp_segmented", "tcp_refused", "tcp_syn_blackholed"] }

    fn components(&self) -> Value { standard_components() }
}

//! C13 — no reply can make a query reserve unbounded memory; requests sent are
//! bounded by the retry setting and the datagrams received. Hostile runs biased
//! to extreme length / count / size / index fields, under a counting allocator.

use super::{c01::hostile_world, crash_violation, describe_call, describe_result, standard_components, SERVER_IP};
use crate::entry::Entry;
use crate::harness::run_call;
use crate::prop::{CaseOut, Prop, Tier, Violation};
use crate::scenarios::gen_scenario;
use crate::tape::Tape;
use crate::world::Hist;
use serde_json::{json, Value};

pub struct C13;

pub const LIVE_LIMIT: u64 = 64 << 20;
pub const SINGLE_LIMIT: u64 = 16 << 20;

/// Sends of one fault-free attempt sequence of an entry point (loose upper bound).
fn k_of(e: &Entry) -> u64 {
    match e {
        Entry::Valve { .. } | Entry::ValveGame(_) | Entry::TheShip { .. } | Entry::Battalion | Entry::Ffow { .. } => 12,
        Entry::Gs { version: 3, .. } | Entry::Jc2m { .. } => 2,
        Entry::GsGame(_) => 2,
        Entry::Unreal2 { .. } | Entry::Unreal2Game(_) => 3,
        Entry::McAuto { .. } | Entry::McGameAuto => 15,
        Entry::McLegacy | Entry::McGameLegacy => 3,
        Entry::McJava { .. } | Entry::McGameJava { .. } => 3,
        Entry::Generic { .. } => 15,
        // the HTTP client follows up to 5 redirects and re-sends once on a stale pooled connection
        Entry::Eco { .. } => 12,
        _ => 1,
    }
}

impl Prop for C13 {
    fn id(&self) -> &'static str { "C13" }

    fn level(&self) -> &'static str { "exploration" }

    fn cases(&self, tier: Tier) -> u64 {
        match tier {
            Tier::Quick => 300_000,
            Tier::Thorough => 12_000_000,
        }
    }

    fn run_case(&self, idx: u64, mut t: Tape, detail: bool) -> (CaseOut, Tape) {
        let mut out = CaseOut::default();
        // every third case replays a damaged recorded conversation of a reference-model server
        let (call, mut w, script) = if idx % 3 == 2 {
            match super::c01::recorded_hostile(t, true) {
                Some(x) => {
                    out.probe("recorded_conversation_replayed");
                    x
                }
                None => {
                    out.skipped = Some("recorded conversation had no replies");
                    return (out, Tape::replay(Default::default()));
                }
            }
        } else if idx % 12 == 7 {
            // one case in twelve: the HTTP game against a scripted HTTP peer (the real HTTP client runs)
            let scn = crate::scenarios::eco_http_scenario(&mut t, SERVER_IP, 2);
            let (w, script) = hostile_world(t, &scn, true, false);
            (scn.call, w, script)
        } else {
            let scn = gen_scenario(&mut t, SERVER_IP, 2);
            let (w, script) = hostile_world(t, &scn, true, false);
            (scn.call, w, script)
        };
        let r = crate::gen::retries_of(&call.timeout) as u64;
        w.op_budget = 2_000 + 500 * (r + 1);
        let mut run = run_call(w, &call);
        let fam = call.entry.family();
        let fam_class = fam.split(':').next().unwrap_or("").to_string();
        if let Some(c) = &run.crash {
            // crashes are C01's; an abort for a huge allocation is also a C13 violation and is
            // reported by the process-level watchdog with its own signature
            let _ = crash_violation("", c);
            out.probe("crashed_runs_left_to_C01");
        } else {
            if run.alloc.largest > SINGLE_LIMIT {
                out.violate(Violation::new(
                    format!("{fam_class}|single-allocation"),
                    "one allocation request above 16 MiB during a query".to_string(),
                    format!("<= {SINGLE_LIMIT} bytes"),
                    format!("{} bytes", run.alloc.largest),
                ));
            }
            if run.alloc.peak_live > LIVE_LIMIT {
                out.violate(Violation::new(
                    format!("{fam_class}|live-memory"),
                    "more than 64 MiB live during a query".to_string(),
                    format!("<= {LIVE_LIMIT} bytes"),
                    format!("{} bytes", run.alloc.peak_live),
                ));
            }
            let sends = run.world.hist.iter().filter(|h| matches!(h, Hist::UdpSend { .. } | Hist::TcpWrite { .. })).count() as u64;
            let received = run.world.stats.udp_recvs + run.world.hist.iter().filter(|h| matches!(h, Hist::TcpRead { len, .. } if *len > 0)).count() as u64;
            let bound = (r + 1) * k_of(&call.entry) + received;
            if sends > bound {
                out.violate(Violation::new(
                    format!("{fam_class}|requests-unbounded"),
                    "more requests than (retries+1) x one attempt sequence + datagrams received".to_string(),
                    format!("<= {bound}"),
                    format!("{sends} sends, {received} received"),
                ));
            }
        }
        if run.alloc.largest > (1 << 20) {
            out.probe("allocation_above_1MiB_seen");
        }
        if run.alloc.count > 0 {
            out.probe("allocations_counted");
        }
        out.absorb(&run.world);
        out.distinct_key = out.log_hash;
        if detail {
            out.sample = Some(json!({"call": describe_call(&call), "script": script, "peak_live_bytes": run.alloc.peak_live, "largest_request_bytes": run.alloc.largest,
                "allocations": run.alloc.count, "result": describe_result(&run.result, &run.crash)}));
            out.schedule = run.world.render_history(80);
        }
        let tape = std::mem::replace(&mut run.world.tape, Tape::replay(Default::default()));
        (out, tape)
    }

    fn rule(&self) -> String {
        "the C01 generator (entry point registry x hostile reply scripts; every third case a damaged recorded conversation of a reference-model server, including bzip2-compressed split replies) biased to extreme values in every length / count / size / index position (boundary integers in either byte order, huge decimal numbers in text protocols, padding to 64 KiB), run under a counting global allocator that counts only client-side allocations (not the simulator's); oracle: peak live bytes <= 64 MiB, largest single request <= 16 MiB, a request above 256 MiB is not served (the worker aborts and the parent attributes it), sends <= (retries+1) x K + datagrams received; non-trivial = a reply was received; distinct = distinct event-log hash".to_string()
    }

    fn assumptions(&self) -> Vec<String> {
        vec![
            "allocations made inside the simulator backend are excluded from the measurement by a thread-local depth marker".into(),
            "runs that panic are left to C01; runs that abort on a > 256 MiB request are violations of both".into(),
            "K is a deliberately loose per-entry constant (12 for Valve-based entries, 15 for auto-detecting Minecraft, 12 for the HTTP game: up to 5 redirects, each request re-sent at most once on a stale pooled connection; 1-3 otherwise)".into(),
        ]
    }

    fn required_probes(&self) -> Vec<&'static str> { vec!["allocations_counted", "datagram_truncated_to_buffer", "recorded_conversation_replayed", "http_client_connects_over_simulated_tcp"] }

    fn components(&self) -> Value { standard_components() }
}

//! C04 — GameSpy 1/2/3 replies are decoded completely (fault-free).

use super::{run_built, standard_components, Built, SERVER_IP};
use crate::entry::{Call, Entry, GAMESPY_GAMES};
use crate::gen;
use crate::models::gamespy::{self as gm, Gs1Server, Gs1State, Gs2Server, Gs2State, Gs3Server, Gs3State};
use crate::prop::{CaseOut, Prop, Tier};
use crate::tape::{Tape, CFG};
use crate::world::{Proto, World};
use serde_json::{json, Value};
use std::net::SocketAddr;

pub struct C04;

pub fn build(mut t: Tape) -> Built {
    let via_game = t.draw(CFG, 5) == 0;
    let (version, vars, entry, default_port) = if via_game {
        let i = t.draw(CFG, GAMESPY_GAMES.len() as u64) as usize;
        (GAMESPY_GAMES[i].version, false, Entry::GsGame(i), crate::golden::module_port(GAMESPY_GAMES[i].module, GAMESPY_GAMES[i].port))
    } else {
        let version = 1 + t.draw(CFG, 3) as u8;
        let vars = version != 2 && t.draw(CFG, 4) == 0;
        (version, vars, Entry::Gs { version, vars }, 7778)
    };
    let port = if t.draw(CFG, 2) == 0 { None } else { Some(1024 + t.draw(CFG, 60_000) as u16) };
    let timeout = if via_game { None } else { gen::timeouts_long(&mut t, 2) };
    let call = Call { entry, ip: SERVER_IP, port, default_port, timeout };
    let addr = SocketAddr::new(SERVER_IP, port.unwrap_or(default_port));
    let family = format!("gamespy{version}{}", if vars { "-vars" } else { "" });
    match version {
        1 => {
            let st = Gs1State::generate(&mut t, 64);
            let parts = 1 + t.draw(CFG, 7) as usize;
            let final_first = t.draw(CFG, 2) == 1;
            let datagrams = st.encode(&mut t, parts, final_first);
            let expected = if vars { json!(st.expected_vars()) } else { st.expected() };
            let detail = json!({"version": 1, "parts": datagrams.len(), "players": st.players.len(), "extras": st.extras.len(), "final_first": final_first, "largest_datagram": datagrams.iter().map(Vec::len).max()});
            let mut w = World::new(t);
            w.add_server(addr, Proto::Udp, Box::new(Gs1Server::new(datagrams)));
            Built { call, world: w, expected, family, normalise: if vars { None } else { Some(gm::gs1_normalise) }, detail }
        }
        2 => {
            // one case in four: long tables, the reply datagram is far above 1024 bytes and the MTU
            let big = t.draw(CFG, 4) == 0;
            let mut st = Gs2State::generate(&mut t, if big { 200 } else { 64 });
            st.fit_to(if big { 16_000 } else { 1400 });
            let expected = st.expected();
            let detail = json!({"version": 2, "players": st.players.len(), "teams": st.teams.len(), "extras": st.extras.len(), "reply_len": st.encode([0, 0, 0, 1]).len()});
            let mut w = World::new(t);
            w.add_server(addr, Proto::Udp, Box::new(Gs2Server { st, outcomes: Vec::new(), attempts: 0, requests: Vec::new() }));
            Built { call, world: w, expected, family, normalise: None, detail }
        }
        _ => {
            let mut st = Gs3State::generate(&mut t, 64, false);
            st.cut_values_resent = t.draw(CFG, 3) == 0;
            let packets = 1 + t.draw(CFG, 7) as usize;
            let payloads = st.payloads(&mut t, packets);
            let expected = if vars { json!(st.pairs().into_iter().collect::<std::collections::BTreeMap<_, _>>()) } else { st.expected() };
            let detail = json!({"version": 3, "packets": payloads.len(), "players": st.players.len(), "teams": st.teams.len(), "challenge": st.challenge_text, "largest_payload": payloads.iter().map(Vec::len).max()});
            let mut w = World::new(t);
            w.add_server(addr, Proto::Udp, Box::new(Gs3Server::new(st, payloads)));
            Built { call, world: w, expected, family, normalise: if vars { None } else { Some(gs3_normalise) }, detail }
        }
    }
}

fn gs3_normalise(expected: &mut Value, observed: &mut Value) {
    if expected["tournament"].is_null() {
        if let Some(o) = observed.as_object_mut() {
            o.insert("tournament".into(), Value::Null);
        }
    }
}

impl Prop for C04 {
    fn id(&self) -> &'static str { "C04" }

    fn level(&self) -> &'static str { "exploration" }

    fn cases(&self, tier: Tier) -> u64 {
        match tier {
            Tier::Quick => 60_000,
            Tier::Thorough => 3_000_000,
        }
    }

    fn run_case(&self, _idx: u64, t: Tape, detail: bool) -> (CaseOut, Tape) {
        let mut out = CaseOut::default();
        let b = build(t);
        let mut run = run_built(&mut out, b, "gamespy query", detail);
        let tape = std::mem::replace(&mut run.world.tape, Tape::replay(Default::default()));
        (out, tape)
    }

    fn rule(&self) -> String {
        "each case draws gamespy::{one,two,three}::{query,query_vars} or a generated GameSpy game module, a server state in that version's domain (0-64 players with optional per-player fields, 0-8 teams, extra variables, password spellings, GS3 challenge incl. 0 / negative / i32::MIN / leading '+') and a transport (GS1 1-7 parts cut between key/value pairs with queryid N.k and final before or after it; GS3 1-7 splitnum packets cut between field values with continuation offsets); non-trivial = a reply was received; distinct = distinct event-log hash".to_string()
    }

    fn assumptions(&self) -> Vec<String> {
        vec![
            "formats follow the public protocol descriptions and the node-gamedig reference readers (reference-derived)".into(),
            "GS1 `numplayers` may be consumed or left in unused_entries; `tournament` is only checked when the server sent it".into(),
            "fault-free network; in-order delivery".into(),
        ]
    }

    fn required_probes(&self) -> Vec<&'static str> { vec!["multi_datagram_reply"] }

    fn components(&self) -> Value { standard_components() }
}

//! C05 — Quake 1/2/3 status replies yield all variables and players (fault-free).

use super::{run_built, standard_components, Built, SERVER_IP};
use crate::entry::{Call, Entry, QUAKE_GAMES};
use crate::gen;
use crate::models::quake::{QuakeServer, QuakeState};
use crate::prop::{CaseOut, Prop, Tier};
use crate::tape::{Tape, CFG};
use crate::world::{Proto, World};
use serde_json::{json, Value};
use std::net::SocketAddr;

pub struct C05;

pub fn build(mut t: Tape) -> Built {
    let via_game = t.draw(CFG, 5) == 0;
    let (version, entry, default_port) = if via_game {
        let i = t.draw(CFG, QUAKE_GAMES.len() as u64) as usize;
        (QUAKE_GAMES[i].version, Entry::QuakeGame(i), crate::golden::module_port(QUAKE_GAMES[i].module, QUAKE_GAMES[i].port))
    } else {
        let version = 1 + t.draw(CFG, 3) as u8;
        (version, Entry::Quake { version }, 27960)
    };
    let port = if t.draw(CFG, 2) == 0 { None } else { Some(1024 + t.draw(CFG, 60_000) as u16) };
    let timeout = if via_game { None } else { gen::timeouts_long(&mut t, 2) };
    let call = Call { entry, ip: SERVER_IP, port, default_port, timeout };
    let addr = SocketAddr::new(SERVER_IP, port.unwrap_or(default_port));
    // names containing spaces form a separately signed sub-domain
    let spaces = t.draw(CFG, 4) == 0;
    // one case in four: a long player list, the reply datagram is far above 1024 bytes and the MTU
    let big = t.draw(CFG, 4) == 0;
    let mut st = QuakeState::generate(&mut t, version, if big { 200 } else { 64 }, spaces);
    if t.draw(CFG, 4) == 0 {
        st.add_both_spellings(&mut t);
    }
    st.fit_to(if big { 16_000 } else { 1400 });
    let family = format!("quake{version}{}", if spaces && st.players.iter().any(|p| p.name.contains(' ')) { "-names-with-spaces" } else { "" });
    let expected = st.expected();
    let detail = json!({"version": version, "players": st.players.len(), "extras": st.extras.len(), "reply_len": st.encode().len(), "alt_keys": [st.host_key_alt, st.map_key_alt, st.max_key_alt]});
    let mut w = World::new(t);
    w.add_server(addr, Proto::Udp, Box::new(QuakeServer { st, outcomes: Vec::new(), attempts: 0, requests: Vec::new() }));
    Built { call, world: w, expected, family, normalise: None, detail }
}

impl Prop for C05 {
    fn id(&self) -> &'static str { "C05" }

    fn level(&self) -> &'static str { "exploration" }

    fn cases(&self, tier: Tier) -> u64 {
        match tier {
            Tier::Quick => 60_000,
            Tier::Thorough => 3_000_000,
        }
    }

    fn run_case(&self, _idx: u64, t: Tape, detail: bool) -> (CaseOut, Tape) {
        let mut out = CaseOut::default();
        let b = build(t);
        let mut run = run_built(&mut out, b, "quake query", detail);
        let tape = std::mem::replace(&mut run.world.tape, Tape::replay(Default::default()));
        (out, tape)
    }

    fn rule(&self) -> String {
        "each case draws quake::{one,two,three}::query or a generated Quake game module and a status reply in the format's domain (any variable set with either key spelling, 0-64 player lines, Q1 8-field lines, Q2/Q3 3- or 4-field lines, quoted and unquoted names; names containing spaces are a separately signed sub-domain); non-trivial = a reply was received; distinct = distinct event-log hash".to_string()
    }

    fn assumptions(&self) -> Vec<String> {
        vec!["the status format follows the public Quake status descriptions and node-gamedig (reference-derived)".into(), "fault-free network".into()]
    }

    fn components(&self) -> Value { standard_components() }
}

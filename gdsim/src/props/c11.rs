//! C11 — gather toggles and the app-id check behave as documented.
//! Exhaustive matrix: toggle pairs x section outcomes x app-id relation x check.

use super::{describe_call, describe_result, standard_components, SERVER_IP};
use crate::entry::{is_timeout_class, Call, Entry};
use crate::harness::{json_diff, run_call};
use crate::models::gamespy::Outcome as GO;
use crate::models::unreal2::{self as um, Unreal2Server, Unreal2State};
use crate::models::valve::{self as vm, Outcome as VO, ValveServer, ValveState};
use crate::prop::{CaseOut, Prop, Tier, Violation};
use crate::tape::{Tape, CFG};
use crate::world::{Hist, Proto, World};
use gamedig::protocols::types::GatherToggle;
use gamedig::protocols::unreal2::GatheringSettings as U2G;
use gamedig::protocols::valve::{Engine, GatheringSettings};
use gamedig::GDErrorKind;
use serde_json::{json, Value};
use std::net::SocketAddr;

pub struct C11;

const TOGGLES: [GatherToggle; 3] = [GatherToggle::Skip, GatherToggle::Try, GatherToggle::Enforce];
const VOUT: [VO; 4] = [VO::Valid, VO::Silent, VO::Malformed, VO::ChallengeThenSilent];
const UOUT: [GO; 3] = [GO::Valid, GO::Silent, GO::Malformed];

pub const VALVE_CELLS: u64 = 3 * 3 * 4 * 4 * 4 * 2 * 2;
pub const U2_CELLS: u64 = 3 * 3 * 3 * 3;

#[derive(Debug, Clone, Copy, PartialEq, Eq)]
enum Fail {
    None,
    Timeout,
    Other,
}

fn vfail(o: VO) -> Fail {
    match o {
        VO::Valid => Fail::None,
        VO::Silent | VO::ChallengeThenSilent | VO::Partial => Fail::Timeout,
        VO::Malformed => Fail::Other,
    }
}

fn ufail(o: GO) -> Fail {
    match o {
        GO::Valid => Fail::None,
        GO::Silent | GO::Partial => Fail::Timeout,
        GO::Malformed => Fail::Other,
    }
}

fn kinds_requested(w: &World, pred: &dyn Fn(&[u8]) -> Option<u8>) -> Vec<u8> {
    let mut v = Vec::new();
    for h in &w.hist {
        if let Hist::UdpSend { data, .. } = h {
            if let Some(k) = pred(data) {
                if !v.contains(&k) {
                    v.push(k);
                }
            }
        }
    }
    v
}

#[allow(clippy::too_many_arguments)]
fn cell_desc_early(pt: GatherToggle, po: VO, rt: GatherToggle, ro: VO, rel: u64, check: bool, has_ded: bool, generic: bool) -> String {
    format!(
        "valve players={pt:?}/{po:?} rules={rt:?}/{ro:?} appid-relation={} expectation={} check={check} path={}",
        ["main", "dedicated", "other", "none"][rel as usize],
        if has_ded { "main+dedicated" } else { "main only" },
        if generic { "definition-driven + ExtraRequestSettings" } else { "valve::query" }
    )
}

#[allow(clippy::too_many_arguments)]
fn finish(mut out: CaseOut, problems: Vec<(String, String, String, String)>, cell_desc: String, call: Call, run: crate::harness::RunOut, cell: u64, detail: bool, t: Tape) -> (CaseOut, Tape) {
    for (sig, what, e, o) in problems {
        out.violate(Violation::new(sig, format!("[{cell_desc}] {what}"), e, o));
    }
    out.absorb(&run.world);
    out.nontrivial = true;
    out.distinct_key = crate::rng::mix(&[out.log_hash, cell]);
    if detail {
        out.sample = Some(json!({"call": describe_call(&call), "cell": cell_desc, "result": describe_result(&run.result, &run.crash)}));
    }
    (out, t)
}

impl Prop for C11 {
    fn id(&self) -> &'static str { "C11" }

    fn level(&self) -> &'static str { "fault_enumeration" }

    fn cases(&self, tier: Tier) -> u64 {
        match tier {
            Tier::Quick => (VALVE_CELLS + U2_CELLS) * 4,
            Tier::Thorough => (VALVE_CELLS + U2_CELLS) * 300,
        }
    }

    fn exhaustive(&self, _tier: Tier) -> bool { true }

    fn run_case(&self, idx: u64, mut t: Tape, detail: bool) -> (CaseOut, Tape) {
        let mut out = CaseOut::default();
        let cell = idx % (VALVE_CELLS + U2_CELLS);
        let port = 20_000 + t.draw(CFG, 1000) as u16;
        let addr = SocketAddr::new(SERVER_IP, port);
        let mut problems: Vec<(String, String, String, String)> = Vec::new();
        let (call, run, cell_desc) = if cell < VALVE_CELLS {
            let mut c = cell;
            let pt = TOGGLES[(c % 3) as usize];
            c /= 3;
            let rt = TOGGLES[(c % 3) as usize];
            c /= 3;
            let po = VOUT[(c % 4) as usize];
            c /= 4;
            let ro = VOUT[(c % 4) as usize];
            c /= 4;
            let rel = c % 4; // 0 main, 1 dedicated, 2 other, 3 no expectation
            c /= 4;
            let check = c % 2 == 0;
            c /= 2;
            // the expectation has a dedicated-server id or only a main id
            let has_ded = c % 2 == 0;
            // odd repetitions go through the definition-driven entry point with ExtraRequestSettings
            let generic = (idx / (VALVE_CELLS + U2_CELLS)) % 2 == 1 && rel != 3;
            let (main, ded, game_id) = if generic {
                if has_ded { (242_760u32, 556_450u32, "theforest") } else { (440u32, 2_000_000 + t.draw(CFG, 1_000_000) as u32, "teamfortress2") }
            } else {
                // (now and then the id of a game for which the client has special code: Risk of Rain 2)
                let main = if t.draw(CFG, 10) == 0 { 632_360 } else { 10 + t.draw(CFG, 1_000_000) as u32 };
                (main, 2_000_000 + t.draw(CFG, 1_000_000) as u32, "")
            };
            // 2400 (The Ship) and 240 (Counter-Strike: Source) select a different wire layout in the
            // client; a server of another game does not speak it, so such a pairing is outside the domain
            let main = if main == 2400 || main == 240 { main + 7 } else { main };
            let engine = if rel == 3 {
                Engine::Source(None)
            } else if has_ded {
                Engine::new_with_dedicated(main, ded)
            } else {
                Engine::new(main)
            };
            let reported = match rel {
                0 => main,
                1 => ded,
                2 => {
                    match t.draw(CFG, 8) {
                        0 => 0,
                        1 => 1,
                        2 => main + 1,
                        3 => main - 1,
                        4 => ded + 1,
                        5 => main ^ 0x80_0000,
                        6 => ded & 0xffff,
                        _ => 5_000_000 + t.draw(CFG, 1_000_000) as u32,
                    }
                }
                _ => t.draw(CFG, 1 << 24) as u32,
            };
            let mut st = ValveState::generate(&mut t, false, false, Some(reported), 6, 6);
            for p in &mut st.player_list {
                // finite durations only: the response also travels as JSON here (NaN has no JSON form)
                if !f32::from_bits(p.duration_bits).is_finite() {
                    p.duration_bits = 1.5f32.to_bits();
                }
            }
            let gs = GatheringSettings { players: pt, rules: rt, check_app_id: check };
            let mut srv = ValveServer::new(st.clone());
            srv.outcomes[1] = vec![po];
            srv.outcomes[2] = vec![ro];
            srv.enc[1].challenge_rounds = t.draw(CFG, 2) as u8;
            srv.enc[2].challenge_rounds = t.draw(CFG, 2) as u8;
            let entry = if generic {
                Entry::Generic {
                    game_id,
                    extra: Some(gamedig::protocols::types::ExtraRequestSettings {
                        hostname: None,
                        protocol_version: None,
                        // a setting left out means the documented default (Try / Try / check on)
                        gather_players: if pt == GatherToggle::Try && t.draw(CFG, 2) == 0 { None } else { Some(pt) },
                        gather_rules: if rt == GatherToggle::Try && t.draw(CFG, 2) == 0 { None } else { Some(rt) },
                        check_app_id: if check && t.draw(CFG, 2) == 0 { None } else { Some(check) },
                    }),
                    level: 2,
                }
            } else {
                Entry::Valve { engine, gather: Some(gs) }
            };
            let call = Call { entry, ip: SERVER_IP, port: Some(port), default_port: port, timeout: None };
            let mut w = World::new(t);
            w.add_server(addr, Proto::Udp, Box::new(srv));
            let mut run = run_call(w, &call);
            t = std::mem::replace(&mut run.world.tape, Tape::replay(Default::default()));
            // ---- oracle
            let requested = kinds_requested(&run.world, &|d| if d.len() >= 5 && d[.. 4] == [0xff; 4] { Some(d[4]) } else { None });
            // without a dedicated id in the expectation, the 'dedicated' id is a foreign one
            let bad_game = check && (rel == 2 || (rel == 1 && !has_ded));
            let full = vm::normalise_response(vm::expected_response(&st, &engine, &GatheringSettings { players: GatherToggle::Enforce, rules: GatherToggle::Enforce, check_app_id: check }));
            // expected outcome
            let mut exp_err: Option<Fail> = None;
            let mut exp_players = false;
            let mut exp_rules = false;
            if !bad_game {
                // players first, then rules
                match (pt, vfail(po)) {
                    (GatherToggle::Skip, _) => {}
                    (_, Fail::None) => exp_players = true,
                    (GatherToggle::Try, _) => {}
                    (GatherToggle::Enforce, f) => exp_err = Some(f),
                }
                if exp_err.is_none() {
                    match (rt, vfail(ro)) {
                        (GatherToggle::Skip, _) => {}
                        (_, Fail::None) => exp_rules = true,
                        (GatherToggle::Try, _) => {}
                        (GatherToggle::Enforce, f) => exp_err = Some(f),
                    }
                }
            }
            if pt == GatherToggle::Skip && requested.contains(&0x55) {
                problems.push(("valve|skip-requested/players".into(), "players set to Skip but an A2S_PLAYER request was sent".into(), "no 0x55 request".into(), "0x55 request on the wire".into()));
            }
            if rt == GatherToggle::Skip && requested.contains(&0x56) {
                problems.push(("valve|skip-requested/rules".into(), "rules set to Skip but an A2S_RULES request was sent".into(), "no 0x56 request".into(), "0x56 request on the wire".into()));
            }
            match (&run.result, &run.crash) {
                (_, Some(c)) => problems.push((format!("valve|{}", c.signature()), c.describe(), "Ok or Err".into(), c.describe())),
                (Some(Err(e)), _) => {
                    if bad_game {
                        if e.kind != GDErrorKind::BadGame {
                            problems.push((format!("valve|appid/wrong-error/{:?}", e.kind), "foreign app id with checking on must fail with BadGame".into(), "BadGame".into(), format!("{:?}", e.kind)));
                        }
                    } else if e.kind == GDErrorKind::BadGame {
                        problems.push(("valve|appid/unexpected-badgame".into(), "BadGame although the app id is expected, or checking is off, or there is no expectation".into(), "no BadGame".into(), "BadGame".into()));
                    } else {
                        match exp_err {
                            None => problems.push((format!("valve|unexpected-error/{:?}", e.kind), "the query failed although no Enforce section failed".into(), "Ok".into(), e.text.clone())),
                            Some(Fail::Timeout) if !is_timeout_class(&e.kind) => {
                                problems.push((format!("valve|enforce/wrong-error-class/{:?}", e.kind), "an Enforce section that timed out must fail the query with that (receive-class) failure".into(), "PacketReceive".into(), format!("{:?}", e.kind)))
                            }
                            Some(Fail::Other) if is_timeout_class(&e.kind) => {
                                problems.push((format!("valve|enforce/wrong-error-class/{:?}", e.kind), "an Enforce section with a malformed reply must fail the query with that failure".into(), "a non-timeout error".into(), format!("{:?}", e.kind)))
                            }
                            _ => {}
                        }
                    }
                }
                (Some(Ok(resp)), _) => {
                    let parsed: Option<gamedig::protocols::valve::Response> = match resp {
                        crate::entry::Resp::Valve(r) => Some(r.clone()),
                        crate::entry::Resp::Generic { original, .. } => original.get("Valve").and_then(|v| serde_json::from_value(v.clone()).ok()),
                        _ => None,
                    };
                    let Some(r) = parsed.as_ref() else {
                        problems.push(("valve|unexpected-response-type".into(), "response is not a Valve response".into(), "Valve".into(), resp.variant().into()));
                        return finish(out, problems, cell_desc_early(pt, po, rt, ro, rel, check, has_ded, generic), call, run, cell, detail, t);
                    };
                    if bad_game {
                        problems.push(("valve|appid/not-rejected".into(), "foreign app id with checking on must fail with BadGame".into(), "Err(BadGame)".into(), "Ok".into()));
                    } else if let Some(f) = exp_err {
                        problems.push((format!("valve|enforce/failure-swallowed/{f:?}"), "an Enforce section failed but the query succeeded".into(), "Err".into(), "Ok".into()));
                    } else {
                        let r = vm::normalise_response(r.clone());
                        if let Some((p, e, o)) = json_diff(&serde_json::to_value(&full.info).unwrap(), &serde_json::to_value(&r.info).unwrap()) {
                            problems.push(("valve|rest-not-intact/info".into(), format!("info{p} differs"), e, o));
                        }
                        let check_section = |name: &str, want: bool, got: Option<Value>, full: Value, problems: &mut Vec<(String, String, String, String)>| {
                            match (want, got) {
                                (true, Some(g)) => {
                                    if let Some((p, e, o)) = json_diff(&full, &g) {
                                        problems.push((format!("valve|section-wrong/{name}"), format!("{name}{p} differs"), e, o));
                                    }
                                }
                                (true, None) => problems.push((format!("valve|section-missing/{name}"), format!("{name} was gathered successfully but is absent"), "present".into(), "absent".into())),
                                (false, Some(_)) => problems.push((format!("valve|section-present/{name}"), format!("{name} must be absent (Skip, or Try that failed)"), "absent".into(), "present".into())),
                                (false, None) => {}
                            }
                        };
                        check_section("players", exp_players, r.players.as_ref().map(|p| serde_json::to_value(p).unwrap()), serde_json::to_value(&full.players).unwrap(), &mut problems);
                        check_section("rules", exp_rules, r.rules.as_ref().map(|p| serde_json::to_value(p).unwrap()), serde_json::to_value(&full.rules).unwrap(), &mut problems);
                    }
                }
                _ => {}
            }
            (call, run, cell_desc_early(pt, po, rt, ro, rel, check, has_ded, generic))
        } else {
            let mut c = cell - VALVE_CELLS;
            let rt = TOGGLES[(c % 3) as usize];
            c /= 3;
            let pt = TOGGLES[(c % 3) as usize];
            c /= 3;
            let ro = UOUT[(c % 3) as usize];
            c /= 3;
            let po = UOUT[(c % 3) as usize];
            let mut st = Unreal2State::generate(&mut t, 6);
            st.num_players = st.players.len() as u32;
            let rules = st.rules_datagrams(1 + t.draw(CFG, 2) as usize, &mut t);
            let players = st.players_datagrams(1 + t.draw(CFG, 2) as usize, &mut t);
            let mut srv = Unreal2Server::new(st.info_datagram(), rules, players);
            srv.outcomes[1] = vec![ro];
            srv.outcomes[2] = vec![po];
            let g = U2G { players: pt, mutators_and_rules: rt };
            let generic = (idx / (VALVE_CELLS + U2_CELLS)) % 2 == 1;
            let entry = if generic {
                Entry::Generic {
                    game_id: "killingfloor",
                    extra: Some(gamedig::protocols::types::ExtraRequestSettings { hostname: None, protocol_version: None, gather_players: Some(pt), gather_rules: Some(rt), check_app_id: None }),
                    level: 2,
                }
            } else {
                Entry::Unreal2 { gather: g }
            };
            let call = Call { entry, ip: SERVER_IP, port: Some(port), default_port: port, timeout: None };
            let mut w = World::new(t);
            w.add_server(addr, Proto::Udp, Box::new(srv));
            let mut run = run_call(w, &call);
            t = std::mem::replace(&mut run.world.tape, Tape::replay(Default::default()));
            let requested = kinds_requested(&run.world, &|d| if d.len() == 5 && d[.. 4] == [0x79, 0, 0, 0] { Some(d[4]) } else { None });
            let mut exp_err: Option<Fail> = None;
            let mut exp_rules = false;
            let mut exp_players = false;
            match (rt, ufail(ro)) {
                (GatherToggle::Skip, _) => {}
                (_, Fail::None) => exp_rules = true,
                (GatherToggle::Try, _) => {}
                (GatherToggle::Enforce, f) => exp_err = Some(f),
            }
            if exp_err.is_none() {
                match (pt, ufail(po)) {
                    (GatherToggle::Skip, _) => {}
                    (_, Fail::None) => exp_players = true,
                    (GatherToggle::Try, _) => {}
                    (GatherToggle::Enforce, f) => exp_err = Some(f),
                }
            }
            if rt == GatherToggle::Skip && requested.contains(&1) {
                problems.push(("unreal2|skip-requested/rules".into(), "rules set to Skip but a rules request was sent".into(), "no request".into(), "request on the wire".into()));
            }
            if pt == GatherToggle::Skip && requested.contains(&2) {
                problems.push(("unreal2|skip-requested/players".into(), "players set to Skip but a players request was sent".into(), "no request".into(), "request on the wire".into()));
            }
            match (&run.result, &run.crash) {
                (_, Some(c)) => problems.push((format!("unreal2|{}", c.signature()), c.describe(), "Ok or Err".into(), c.describe())),
                (Some(Err(e)), _) => {
                    match exp_err {
                        None => problems.push((format!("unreal2|unexpected-error/{:?}", e.kind), "the query failed although no Enforce section failed".into(), "Ok".into(), e.text.clone())),
                        Some(Fail::Timeout) if !is_timeout_class(&e.kind) => problems.push((format!("unreal2|enforce/wrong-error-class/{:?}", e.kind), "Enforce + timeout must fail with that failure".into(), "PacketReceive".into(), format!("{:?}", e.kind))),
                        Some(Fail::Other) if is_timeout_class(&e.kind) => problems.push((format!("unreal2|enforce/wrong-error-class/{:?}", e.kind), "Enforce + malformed must fail with that failure".into(), "non-timeout error".into(), format!("{:?}", e.kind))),
                        _ => {}
                    }
                }
                (Some(Ok(r)), _) => {
                    if let Some(f) = exp_err {
                        problems.push((format!("unreal2|enforce/failure-swallowed/{f:?}"), "an Enforce section failed but the query succeeded".into(), "Err".into(), "Ok".into()));
                    } else {
                        let mut exp = st.expected(exp_rules, exp_players);
                        let mut obs = match r {
                            crate::entry::Resp::Generic { original, .. } => original.get("Unreal2").cloned().unwrap_or(Value::Null),
                            other => other.to_json(),
                        };
                        um::canonicalise(&mut exp);
                        um::canonicalise(&mut obs);
                        if let Some((p, e, o)) = json_diff(&exp, &obs) {
                            let sec = p.split('/').nth(1).unwrap_or("").to_string();
                            problems.push((format!("unreal2|rest-not-intact/{sec}"), format!("{p} differs (a skipped or failed Try section must be empty, the rest intact)"), e, o));
                        }
                    }
                }
                _ => {}
            }
            (call, run, format!("unreal2 rules={rt:?}/{ro:?} players={pt:?}/{po:?} path={}", if generic { "definition-driven + ExtraRequestSettings" } else { "unreal2::query" }))
        };
        for (sig, what, e, o) in problems {
            out.violate(Violation::new(sig, format!("[{cell_desc}] {what}"), e, o));
        }
        out.fault("section_outcome_injected");
        out.absorb(&run.world);
        out.nontrivial = true;
        out.distinct_key = crate::rng::mix(&[out.log_hash, cell]);
        if detail {
            out.sample = Some(json!({"call": describe_call(&call), "cell": cell_desc, "result": describe_result(&run.result, &run.crash)}));
            out.schedule = run.world.render_history(120);
        }
        (out, t)
    }

    fn rule(&self) -> String {
        format!("case index enumerates the full matrix: Valve {VALVE_CELLS} cells = 3 players toggles x 3 rules toggles x 4 players outcomes x 4 rules outcomes {{valid, silent, malformed, challenge-then-silent}} x 4 app-id relations {{main, dedicated, other, no expectation}} x check on/off; Unreal 2 {U2_CELLS} cells = 3 x 3 toggles x 3 x 3 outcomes {{valid, silent, malformed}}; each cell is repeated with fresh server states and challenge settings drawn from the tape; oracle: request kinds seen on the wire, presence and content of each section, error class; distinct = (cell, event-log hash)")
    }

    fn assumptions(&self) -> Vec<String> {
        vec!["retries = 0 (retries are C10's)".into(), "the info section always answers validly here".into(), "Unreal 2: a skipped or failed-Try section is the empty value".into()]
    }

    fn required_probes(&self) -> Vec<&'static str> { vec!["section_outcome_injected", "challenge_issued"] }

    fn components(&self) -> Value { standard_components() }
}

//! C10 — retries: at most r+1 attempts, only after timeouts, same result.
//! All per-attempt outcome vectors over {silent, malformed, valid} of length
//! <= r+2, r in 0..=3, injected at every request position of every protocol
//! that retries; judged by a small reference model of the retry rule.

use super::{describe_call, describe_result, standard_components, SERVER_IP};
use crate::entry::{is_timeout_class, Call, Entry};
use crate::harness::{json_diff, run_call, RunOut};
use crate::models::gamespy::{self as gm, Gs1Server, Gs1State, Gs2Server, Gs2State, Gs3Server, Gs3State};
use crate::models::minecraft::{self as mm, McHost, McTcpServer, McUdpServer, Variant};
use crate::models::misc::{FfowState, MindustryState, OneShotServer};
use crate::models::quake::{QuakeServer, QuakeState};
use crate::models::unreal2::{self as um, Unreal2Server, Unreal2State};
use crate::models::valve::{self as vm, ValveServer, ValveState};
use crate::prop::{CaseOut, Prop, Tier, Violation};
use crate::tape::{Tape, CFG};
use crate::world::{Proto, World};
use gamedig::games::minecraft::LegacyGroup;
use gamedig::protocols::types::{GatherToggle, TimeoutSettings};
use gamedig::protocols::unreal2::GatheringSettings as U2G;
use gamedig::protocols::valve::{Engine, GatheringSettings};
use serde_json::{json, Value};
use std::net::SocketAddr;
use std::time::Duration;

pub struct C10;

#[derive(Clone, Copy, Debug, PartialEq, Eq)]
pub enum O {
    S,
    M,
    V,
}

#[derive(Clone, Copy, Debug, PartialEq, Eq)]
pub enum Pos {
    ValveInfo,
    ValvePlayers,
    ValveRules,
    Ffow,
    Gs1,
    Gs2,
    Gs3Handshake,
    Gs3Data,
    Jc2mHandshake,
    Jc2mData,
    Quake,
    U2Info,
    U2Rules,
    U2Players,
    Java,
    Bedrock,
    Legacy,
    Mindustry,
}

pub const POSITIONS: [Pos; 18] = [
    Pos::ValveInfo,
    Pos::ValvePlayers,
    Pos::ValveRules,
    Pos::Ffow,
    Pos::Gs1,
    Pos::Gs2,
    Pos::Gs3Handshake,
    Pos::Gs3Data,
    Pos::Jc2mHandshake,
    Pos::Jc2mData,
    Pos::Quake,
    Pos::U2Info,
    Pos::U2Rules,
    Pos::U2Players,
    Pos::Java,
    Pos::Bedrock,
    Pos::Legacy,
    Pos::Mindustry,
];

/// All (r, vector) cells: r in 0..=3, vectors over {S, M, V} of length 1..=r+2.
pub fn cells() -> Vec<(usize, Vec<O>)> {
    let mut out = Vec::new();
    for r in 0 ..= 3usize {
        for len in 1 ..= r + 2 {
            let n = 3usize.pow(len as u32);
            for code in 0 .. n {
                let mut c = code;
                let v: Vec<O> = (0 .. len)
                    .map(|_| {
                        let o = [O::S, O::M, O::V][c % 3];
                        c /= 3;
                        o
                    })
                    .collect();
                out.push((r, v));
            }
        }
    }
    out
}

/// The reference model of the retry rule: (sends of the unit, outcome class).
#[derive(Debug, PartialEq, Eq, Clone, Copy)]
pub enum Expect {
    Valid,
    NonTimeoutError,
    TimeoutError,
}

pub fn reference(r: usize, v: &[O]) -> (usize, Expect) {
    let mut sends = 0;
    for i in 0 ..= r {
        sends += 1;
        match v.get(i).copied().unwrap_or(O::V) {
            O::S => continue,
            O::M => return (sends, Expect::NonTimeoutError),
            O::V => return (sends, Expect::Valid),
        }
    }
    (sends, Expect::TimeoutError)
}

fn to_gm(v: &[O]) -> Vec<gm::Outcome> {
    v.iter()
        .map(|o| {
            match o {
                O::S => gm::Outcome::Silent,
                O::M => gm::Outcome::Malformed,
                O::V => gm::Outcome::Valid,
            }
        })
        .collect()
}

fn to_vm(v: &[O]) -> Vec<vm::Outcome> {
    v.iter()
        .map(|o| {
            match o {
                O::S => vm::Outcome::Silent,
                O::M => vm::Outcome::Malformed,
                O::V => vm::Outcome::Valid,
            }
        })
        .collect()
}

fn to_mm(v: &[O]) -> Vec<mm::Outcome> {
    v.iter()
        .map(|o| {
            match o {
                O::S => mm::Outcome::Silent,
                O::M => mm::Outcome::Malformed,
                O::V => mm::Outcome::Valid,
            }
        })
        .collect()
}

struct Setup {
    call: Call,
    /// builds the world for a given outcome vector
    make: Box<dyn Fn(&[O]) -> World>,
    /// does a transmission start an attempt of the unit under test?
    is_unit: std::rc::Rc<dyn Fn(&[u8]) -> bool>,
}

fn ts(r: usize) -> Option<TimeoutSettings> { Some(TimeoutSettings::new(Some(Duration::from_secs(4)), Some(Duration::from_secs(4)), Some(Duration::from_secs(4)), r).unwrap()) }

fn setup(pos: Pos, r: usize, try_section: bool, challenge_then_silent: bool, partial: bool, t: &mut Tape) -> Setup {
    let port = 20_000 + t.draw(CFG, 1000) as u16;
    let addr = SocketAddr::new(SERVER_IP, port);
    // the servers' own choices (which malformed reply, challenge values, cut points) come from a tape
    // of their own: the same in the fault-free and the faulty run of the case
    let wseed = t.full_u64(CFG);
    let call = |entry: Entry| Call { entry, ip: SERVER_IP, port: Some(port), default_port: port, timeout: ts(r) };
    match pos {
        Pos::ValveInfo | Pos::ValvePlayers | Pos::ValveRules => {
            // one case in four (where every section is required) goes through The Ship's own module, which
            // requires all three sections by itself
            let ship = !try_section && t.draw(CFG, 4) == 0;
            let st = if ship { ValveState::generate(t, true, false, Some(2400), 8, 8) } else { ValveState::generate(t, false, false, Some(440), 8, 8) };
            let k = match pos {
                Pos::ValveInfo => 0,
                Pos::ValvePlayers => 1,
                _ => 2,
            };
            let toggle = |section: usize| if try_section && k == section { GatherToggle::Try } else { GatherToggle::Enforce };
            let gs = GatheringSettings { players: toggle(1), rules: toggle(2), check_app_id: true };
            let rounds = t.draw(CFG, 2) as u8;
            let kind_byte = [0x54u8, 0x55, 0x56][k];
            Setup {
                call: if ship { call(Entry::TheShip { with_timeout: true }) } else { call(Entry::Valve { engine: Engine::new(440), gather: Some(gs) }) },
                make: Box::new(move |v| {
                    let mut s = ValveServer::new(st.clone());
                    s.outcomes[k] = to_vm(v);
                    if partial {
                        // a silent attempt is realised as: the first fragment of a split answer, then nothing
                        s.enc[k].split = vm::Split::Source { with_size: true };
                        s.enc[k].frags = 2 + (wseed % 3) as usize;
                        for o in s.outcomes[k].iter_mut() {
                            if *o == vm::Outcome::Silent {
                                *o = vm::Outcome::Partial;
                            }
                        }
                    }
                    if challenge_then_silent {
                        // a silent attempt is realised as: the server hands out a challenge, then says nothing
                        for o in s.outcomes[k].iter_mut() {
                            if *o == vm::Outcome::Silent {
                                *o = vm::Outcome::ChallengeThenSilent;
                            }
                        }
                    }
                    s.enc[k].challenge_rounds = rounds;
                    let mut w = World::new(Tape::generate(wseed));
                    w.add_server(addr, Proto::Udp, Box::new(s));
                    w
                }),
                // an attempt starts with the request that carries no challenge yet
                is_unit: std::rc::Rc::new(move |d| d.len() >= 5 && d[4] == kind_byte && (if k == 0 { d.len() == 25 } else { d[5 ..] == [0xff; 4] })),
            }
        }
        Pos::Ffow => {
            let st = FfowState::generate(t);
            let rounds = t.draw(CFG, 2) as u8;
            Setup {
                call: call(Entry::Ffow { with_timeout: true }),
                make: Box::new(move |v| {
                    let mut vs = ValveState::generate(&mut Tape::replay(Default::default()), false, false, None, 0, 0);
                    vs.player_list.clear();
                    let mut s = ValveServer::new(vs);
                    s.ffow_payload = st.payload();
                    s.outcomes[3] = to_vm(v);
                    s.enc[3].challenge_rounds = rounds;
                    let mut w = World::new(Tape::generate(wseed));
                    w.add_server(addr, Proto::Udp, Box::new(s));
                    w
                }),
                is_unit: std::rc::Rc::new(|d| d == b"\xff\xff\xff\xff\x46LSQ"),
            }
        }
        Pos::Gs1 => {
            let st = Gs1State::generate(t, 6);
            let datagrams = st.encode(t, 2, false);
            Setup {
                call: call(Entry::Gs { version: 1, vars: false }),
                make: Box::new(move |v| {
                    let mut s = Gs1Server::new(datagrams.clone());
                    s.outcomes = to_gm(v);
                    if partial {
                        for o in s.outcomes.iter_mut() {
                            if *o == gm::Outcome::Silent {
                                *o = gm::Outcome::Partial;
                            }
                        }
                    }
                    let mut w = World::new(Tape::generate(wseed));
                    w.add_server(addr, Proto::Udp, Box::new(s));
                    w
                }),
                is_unit: std::rc::Rc::new(|d| d == b"\\status\\xserverquery"),
            }
        }
        Pos::Gs2 => {
            let mut st = Gs2State::generate(t, 6);
            st.fit();
            Setup {
                call: call(Entry::Gs { version: 2, vars: false }),
                make: Box::new(move |v| {
                    let mut w = World::new(Tape::generate(wseed));
                    w.add_server(addr, Proto::Udp, Box::new(Gs2Server { st: st.clone(), outcomes: to_gm(v), attempts: 0, requests: Vec::new() }));
                    w
                }),
                is_unit: std::rc::Rc::new(|d| d.len() == 10 && d[.. 3] == [0xfe, 0xfd, 0]),
            }
        }
        Pos::Gs3Handshake | Pos::Gs3Data | Pos::Jc2mHandshake | Pos::Jc2mData => {
            let jc = matches!(pos, Pos::Jc2mHandshake | Pos::Jc2mData);
            let hs = matches!(pos, Pos::Gs3Handshake | Pos::Jc2mHandshake);
            let st = Gs3State::generate(t, 6, jc);
            let payloads = st.payloads(t, if jc { 1 } else { 2 });
            Setup {
                call: call(if jc { Entry::Jc2m { with_timeout: true } } else { Entry::Gs { version: 3, vars: false } }),
                make: Box::new(move |v| {
                    let mut s = Gs3Server::new(st.clone(), payloads.clone());
                    if hs {
                        s.hs_outcomes = to_gm(v);
                    } else {
                        s.data_outcomes = to_gm(v);
                        if partial {
                            for o in s.data_outcomes.iter_mut() {
                                if *o == gm::Outcome::Silent {
                                    *o = gm::Outcome::Partial;
                                }
                            }
                        }
                    }
                    let mut w = World::new(Tape::generate(wseed));
                    w.add_server(addr, Proto::Udp, Box::new(s));
                    w
                }),
                // the unit is handshake + data request: one handshake per attempt
                is_unit: std::rc::Rc::new(|d| d.len() == 7 && d[.. 3] == [0xfe, 0xfd, 9]),
            }
        }
        Pos::Quake => {
            let version = 1 + t.draw(CFG, 3) as u8;
            let mut st = QuakeState::generate(t, version, 6, false);
            st.fit();
            Setup {
                call: call(Entry::Quake { version }),
                make: Box::new(move |v| {
                    let mut w = World::new(Tape::generate(wseed));
                    w.add_server(addr, Proto::Udp, Box::new(QuakeServer { st: st.clone(), outcomes: to_gm(v), attempts: 0, requests: Vec::new() }));
                    w
                }),
                is_unit: std::rc::Rc::new(|d| d.starts_with(b"\xff\xff\xff\xff") && (d.ends_with(b"status\0"))),
            }
        }
        Pos::U2Info | Pos::U2Rules | Pos::U2Players => {
            let k = match pos {
                Pos::U2Info => 0usize,
                Pos::U2Rules => 1,
                _ => 2,
            };
            let mut st = Unreal2State::generate(t, 6);
            st.num_players = st.players.len() as u32;
            let rules = st.rules_datagrams(1, t);
            let players = st.players_datagrams(1, t);
            let info = st.info_datagram();
            let toggle = |section: usize| if try_section && k == section { GatherToggle::Try } else { GatherToggle::Enforce };
            let g = U2G { players: toggle(2), mutators_and_rules: toggle(1) };
            Setup {
                call: call(Entry::Unreal2 { gather: g }),
                make: Box::new(move |v| {
                    let mut s = Unreal2Server::new(info.clone(), rules.clone(), players.clone());
                    s.outcomes[k] = to_gm(v);
                    let mut w = World::new(Tape::generate(wseed));
                    w.add_server(addr, Proto::Udp, Box::new(s));
                    w
                }),
                is_unit: std::rc::Rc::new(move |d| d == [0x79, 0, 0, 0, k as u8]),
            }
        }
        Pos::Java => {
            let host = McHost::generate(t, vec![Variant::Java]);
            Setup {
                call: call(Entry::McJava { settings: None }),
                make: Box::new(move |v| {
                    let mut s = McTcpServer::new(host.clone());
                    s.java_outcomes = to_mm(v);
                    let mut w = World::new(Tape::generate(wseed));
                    w.add_server(addr, Proto::Tcp, Box::new(s));
                    w
                }),
                // one handshake packet per attempt (TCP writes are looked at one by one)
                is_unit: std::rc::Rc::new(|d| d.len() > 4 && d[1] == 0 && d.ends_with(&[1]) && d[0] as usize == d.len() - 1),
            }
        }
        Pos::Bedrock => {
            let host = McHost::generate(t, vec![Variant::Bedrock]);
            Setup {
                call: call(Entry::McBedrock),
                make: Box::new(move |v| {
                    let mut w = World::new(Tape::generate(wseed));
                    w.add_server(addr, Proto::Udp, Box::new(McUdpServer { host: host.clone(), pings: Vec::new(), outcomes: to_mm(v), attempts: 0 }));
                    w
                }),
                is_unit: std::rc::Rc::new(|d| d.len() == 33 && d[0] == 1),
            }
        }
        Pos::Legacy => {
            let (var, grp, req): (Variant, LegacyGroup, Vec<u8>) = match t.draw(CFG, 3) {
                0 => (Variant::L16, LegacyGroup::V1_6, vec![0xfe, 0x01, 0xfa]),
                1 => (Variant::L14, LegacyGroup::V1_4, vec![0xfe, 0x01]),
                _ => (Variant::LB18, LegacyGroup::VB1_8, vec![0xfe]),
            };
            let host = McHost::generate(t, vec![var]);
            let exact = var != Variant::L16;
            Setup {
                call: call(Entry::McLegacySpecific(grp)),
                make: Box::new(move |v| {
                    let mut s = McTcpServer::new(host.clone());
                    s.legacy_outcomes = to_mm(v);
                    let mut w = World::new(Tape::generate(wseed));
                    w.add_server(addr, Proto::Tcp, Box::new(s));
                    w
                }),
                is_unit: std::rc::Rc::new(move |d| if exact { d == req.as_slice() } else { d.starts_with(&req) }),
            }
        }
        Pos::Mindustry => {
            let st = MindustryState::generate(t);
            Setup {
                call: call(Entry::Mindustry),
                make: Box::new(move |v| {
                    let mut s = OneShotServer::new(vec![0xfe, 0x01], st.datagram());
                    s.outcomes = to_gm(v);
                    let mut w = World::new(Tape::generate(wseed));
                    w.add_server(addr, Proto::Udp, Box::new(s));
                    w
                }),
                is_unit: std::rc::Rc::new(|d| d == [0xfe, 0x01]),
            }
        }
    }
}

/// Timeouts at several request positions of one query: 2 protocols x 4 position subsets x
/// (r, k) with r in 1..=3 and k in 1..=r silent first attempts at every chosen position.
pub const COMBOS: u64 = 2 * 4 * 6;

fn combo_case(cell: u64, rep: u64, mut t: Tape, detail: bool) -> (CaseOut, Tape) {
    let mut out = CaseOut::default();
    let unreal = cell % 2 == 1;
    let subset = [0b011u8, 0b101, 0b110, 0b111][(cell / 2 % 4) as usize];
    let (r, k) = [(1usize, 1usize), (2, 1), (2, 2), (3, 1), (3, 2), (3, 3)][(cell / 8 % 6) as usize];
    let port = 20_000 + t.draw(CFG, 1000) as u16;
    let wseed = t.full_u64(CFG);
    let addr = SocketAddr::new(SERVER_IP, port);
    let silent: Vec<O> = vec![O::S; k];
    let _ = rep;
    let (call, make): (Call, Box<dyn Fn(bool) -> World>) = if unreal {
        let mut st = Unreal2State::generate(&mut t, 6);
        st.num_players = st.players.len() as u32;
        let rules = st.rules_datagrams(1, &mut t);
        let players = st.players_datagrams(1, &mut t);
        let info = st.info_datagram();
        let g = U2G { players: GatherToggle::Enforce, mutators_and_rules: GatherToggle::Enforce };
        let sil = silent.clone();
        (
            Call { entry: Entry::Unreal2 { gather: g }, ip: SERVER_IP, port: Some(port), default_port: port, timeout: ts(r) },
            Box::new(move |faulty| {
                let mut s = Unreal2Server::new(info.clone(), rules.clone(), players.clone());
                if faulty {
                    for p in 0 .. 3 {
                        if subset & (1 << p) != 0 {
                            s.outcomes[p] = to_gm(&sil);
                        }
                    }
                }
                let mut w = World::new(Tape::generate(wseed));
                w.add_server(addr, Proto::Udp, Box::new(s));
                w
            }),
        )
    } else {
        let st = ValveState::generate(&mut t, false, false, Some(440), 8, 8);
        let gs = GatheringSettings { players: GatherToggle::Enforce, rules: GatherToggle::Enforce, check_app_id: true };
        let rounds = t.draw(CFG, 2) as u8;
        let sil = silent.clone();
        (
            Call { entry: Entry::Valve { engine: Engine::new(440), gather: Some(gs) }, ip: SERVER_IP, port: Some(port), default_port: port, timeout: ts(r) },
            Box::new(move |faulty| {
                let mut s = ValveServer::new(st.clone());
                for p in 0 .. 3 {
                    s.enc[p].challenge_rounds = rounds;
                    if faulty && subset & (1 << p) != 0 {
                        s.outcomes[p] = to_vm(&sil);
                    }
                }
                let mut w = World::new(Tape::generate(wseed));
                w.add_server(addr, Proto::Udp, Box::new(s));
                w
            }),
        )
    };
    let ff = run_call(make(false), &call);
    out.absorb(&ff.world);
    let (ff_class, ff_json) = result_class(&ff);
    if ff_class != "ok" {
        out.skipped = Some("fault-free run of this scenario fails (owned by the decode properties)");
        return (out, t);
    }
    let run = run_call(make(true), &call);
    out.absorb(&run.world);
    out.fault("silent_attempt");
    out.probe("timeouts_at_several_positions");
    // attempts per position, from the history
    let unit = |d: &[u8], p: usize| -> bool {
        if unreal {
            d == [0x79, 0, 0, 0, p as u8]
        } else {
            let kb = [0x54u8, 0x55, 0x56][p];
            d.len() >= 5 && d[4] == kb && (if p == 0 { d.len() == 25 } else { d[5 ..] == [0xff; 4] })
        }
    };
    let fam = format!("{}Combo", if unreal { "U2" } else { "Valve" });
    let (class, json) = result_class(&run);
    if let Some(c) = &run.crash {
        out.violate(super::crash_violation(&format!("{fam}|"), c));
    } else {
        for p in 0 .. 3 {
            let sends = run.world.hist.iter().filter(|h| matches!(h, crate::world::Hist::UdpSend { data, .. } if unit(data, p))).count();
            let want = if subset & (1 << p) != 0 { k + 1 } else { 1 };
            if sends != want {
                out.violate(Violation::new(
                    format!("{fam}|attempts/{}", if sends > want { "too-many" } else { "too-few" }),
                    format!("retries={r}, the first {k} attempt(s) time out at positions {subset:03b} (bit 0 = info): position {p} was sent {sends} times; the retry count is per request"),
                    format!("{want} attempts"),
                    format!("{sends} attempts"),
                ));
            }
        }
        let same = json.as_ref().zip(ff_json.as_ref()).map_or(false, |(a, b)| json_diff(b, a).is_none());
        if !same {
            out.violate(Violation::new(
                format!("{fam}|valid-attempt/{}", if class == "ok" { "different-result" } else { class.as_str() }),
                format!("retries={r}, the first {k} attempt(s) time out at positions {subset:03b}: every request still has attempts left, the result must equal the fault-free one"),
                "the fault-free result",
                describe_result(&run.result, &run.crash),
            ));
        }
    }
    out.nontrivial = true;
    out.distinct_key = crate::rng::mix(&[out.log_hash, 1_000_000 + cell]);
    if detail {
        out.sample = Some(json!({"call": describe_call(&call), "positions_with_timeouts": format!("{subset:03b}"), "retries": r, "silent_first_attempts": k, "result": describe_result(&run.result, &run.crash)}));
        out.schedule = run.world.render_history(150);
    }
    (out, t)
}

fn result_class(r: &RunOut) -> (String, Option<Value>) {
    match (&r.crash, &r.result) {
        (Some(c), _) => (c.signature(), None),
        (_, Some(Ok(v))) => {
            let mut j = v.to_json();
            um::canonicalise(&mut j);
            ("ok".into(), Some(j))
        }
        (_, Some(Err(e))) => (if is_timeout_class(&e.kind) { "timeout-error".into() } else { format!("error/{:?}", e.kind) }, None),
        _ => ("none".into(), None),
    }
}

impl Prop for C10 {
    fn id(&self) -> &'static str { "C10" }

    fn level(&self) -> &'static str { "fault_enumeration" }

    fn cases(&self, tier: Tier) -> u64 {
        let n = (cells().len() * POSITIONS.len()) as u64 + COMBOS;
        match tier {
            Tier::Quick => n * 5,
            Tier::Thorough => n * 60,
        }
    }

    fn exhaustive(&self, _tier: Tier) -> bool { true }

    fn run_case(&self, idx: u64, mut t: Tape, detail: bool) -> (CaseOut, Tape) {
        let mut out = CaseOut::default();
        let all = cells();
        let nmain = (all.len() * POSITIONS.len()) as u64;
        let ncell = nmain + COMBOS;
        if idx % ncell >= nmain {
            return combo_case(idx % ncell - nmain, idx / ncell, t, detail);
        }
        let cell = (idx % ncell) as usize;
        let rep = idx / ncell;
        let pos = POSITIONS[cell % POSITIONS.len()];
        let (r, vec) = all[cell / POSITIONS.len()].clone();
        // how "silent" is realised: the server stays silent (== request or reply lost), or the send fails
        let send_error = rep % 2 == 1;
        // Valve: a third realisation of "silent" is a challenge that is never followed by the reply
        let is_valve = matches!(pos, Pos::ValveInfo | Pos::ValvePlayers | Pos::ValveRules);
        let challenge_then_silent = is_valve && rep % 3 == 2 && !send_error;
        // optional sections: with the toggle on Try the failure of the section does not fail the query
        let optional_section = matches!(pos, Pos::ValvePlayers | Pos::ValveRules | Pos::U2Rules | Pos::U2Players);
        let try_section = optional_section && (rep / 2) % 2 == 1;
        // multi-datagram replies: a fourth realisation is "the first datagram, then nothing"
        let partial = matches!(pos, Pos::ValveInfo | Pos::ValvePlayers | Pos::ValveRules | Pos::Gs1 | Pos::Gs3Data) && rep % 5 == 4 && !send_error && !challenge_then_silent;
        let su = setup(pos, r, try_section, challenge_then_silent, partial, &mut t);
        if partial {
            out.probe("first_datagram_then_silence");
        }
        // ---- fault-free reference run of the same scenario
        let ff = run_call((su.make)(&[]), &su.call);
        out.absorb(&ff.world);
        let (ff_class, ff_json) = result_class(&ff);
        if ff_class != "ok" {
            out.skipped = Some("fault-free run of this scenario fails (owned by the decode properties)");
            out.distinct_key = out.log_hash;
            return (out, t);
        }
        // ---- the faulty run
        let mut w = if send_error {
            // every Silent becomes a failing send of that attempt; attempts whose send fails never
            // reach the server, which therefore sees only the first non-silent outcome
            let mut shifted: Vec<O> = Vec::new();
            let mut fail_nth: Vec<u64> = Vec::new();
            for (attempt, o) in vec.iter().enumerate() {
                match o {
                    O::S => fail_nth.push(attempt as u64),
                    other => {
                        shifted.push(*other);
                        break;
                    }
                }
            }
            let mut w = (su.make)(&shifted);
            w.os.fail_unit_sends = fail_nth;
            out.fault("send_error");
            w
        } else {
            (su.make)(&vec)
        };
        w.os.unit_matcher = Some(su.is_unit.clone());
        for o in &vec {
            match o {
                O::S => out.fault("silent_attempt"),
                O::M => out.fault("malformed_reply"),
                O::V => {}
            }
        }
        let mut run = run_call(w, &su.call);
        out.absorb(&run.world);
        let (exp_sends, exp) = reference(r, &vec);
        let observed_sends = run.world.os.unit_sends_seen as usize;
        if try_section {
            out.probe("section_on_try");
        }
        if challenge_then_silent {
            out.probe("challenge_then_silent");
        }
        let (class, json) = result_class(&run);
        let fam = format!("{pos:?}");
        if let Some(c) = &run.crash {
            out.violate(super::crash_violation(&format!("{fam}|"), c));
        } else {
            if observed_sends != exp_sends {
                out.violate(Violation::new(
                    format!("{fam}|attempts/{}", if observed_sends > exp_sends { "too-many" } else { "too-few" }),
                    format!("retries={r}, attempt outcomes {vec:?}: the request unit was sent {observed_sends} times"),
                    format!("{exp_sends} attempts"),
                    format!("{observed_sends} attempts"),
                ));
            }
            // no request, whatever its place in the exchange, is transmitted more often than r+1 times
            let mut counts: std::collections::HashMap<&Vec<u8>, usize> = std::collections::HashMap::new();
            for h in &run.world.hist {
                if let crate::world::Hist::UdpSend { data, .. } = h {
                    *counts.entry(data).or_insert(0) += 1;
                }
            }
            if let Some((d, n)) = counts.iter().max_by_key(|(d, n)| (**n, d.len())) {
                if *n > r + 1 {
                    out.violate(Violation::new(
                        format!("{fam}|one-request-sent-too-often"),
                        format!("retries={r}, attempt outcomes {vec:?}: one and the same request was transmitted {n} times"),
                        format!("at most {} transmissions of any request", r + 1),
                        format!("{n} x {}", d.iter().take(24).map(|b| format!("{b:02x}")).collect::<String>()),
                    ));
                }
            }
            // Valve: a challenge is echoed once; a timeout after it restarts the whole unit
            if is_valve {
                let kind_byte = match pos {
                    Pos::ValveInfo => 0x54u8,
                    Pos::ValvePlayers => 0x55,
                    _ => 0x56,
                };
                let echoes = run
                    .world
                    .hist
                    .iter()
                    .filter(|h| matches!(h, crate::world::Hist::UdpSend { data, .. } if data.len() >= 9 && data[4] == kind_byte && !(su.is_unit)(data)))
                    .count();
                let mut w2 = run.world;
                let issued = w2.server_mut::<ValveServer>(0).map_or(0, |s| s.issued.iter().filter(|(k, _)| k.idx() == (kind_byte - 0x54) as usize).count());
                run.world = w2;
                if echoes > issued {
                    out.violate(Violation::new(
                        format!("{fam}|challenge-echoed-more-than-once"),
                        format!("retries={r}, attempt outcomes {vec:?}: {issued} challenges were issued for this request, {echoes} challenged requests were sent"),
                        "one challenged request per challenge issued",
                        format!("{echoes} challenged requests"),
                    ));
                }
            }
            match exp {
                // a failing optional section (toggle on Try) leaves a successful response without it
                Expect::NonTimeoutError | Expect::TimeoutError if try_section => {
                    if class != "ok" {
                        out.violate(Violation::new(
                            format!("{fam}|try-section/{class}"),
                            format!("retries={r}, attempt outcomes {vec:?}, section on Try: its failure must not fail the query"),
                            "Ok without the section",
                            describe_result(&run.result, &run.crash),
                        ));
                    }
                }
                Expect::Valid => {
                    let same = json.as_ref().zip(ff_json.as_ref()).map_or(false, |(a, b)| json_diff(b, a).is_none());
                    if !same {
                        out.violate(Violation::new(
                            format!("{fam}|valid-attempt/{}", if class == "ok" { "different-result" } else { class.as_str() }),
                            format!("retries={r}, attempt outcomes {vec:?}: the first attempt that got a valid reply must determine the result, identical to the fault-free one"),
                            "the fault-free result",
                            describe_result(&run.result, &run.crash),
                        ));
                    }
                }
                Expect::NonTimeoutError => {
                    if class == "ok" || class == "timeout-error" {
                        out.violate(Violation::new(
                            format!("{fam}|malformed-attempt/{class}"),
                            format!("retries={r}, attempt outcomes {vec:?}: a malformed reply must end the query with a non-timeout error"),
                            "a non-timeout error",
                            describe_result(&run.result, &run.crash),
                        ));
                    }
                }
                Expect::TimeoutError => {
                    if class != "timeout-error" {
                        out.violate(Violation::new(
                            format!("{fam}|all-silent/{class}"),
                            format!("retries={r}, attempt outcomes {vec:?}: when all r+1 attempts time out the query must fail with a receive/send-class error"),
                            "PacketReceive or PacketSend",
                            describe_result(&run.result, &run.crash),
                        ));
                    }
                }
            }
        }
        out.nontrivial = true;
        out.distinct_key = crate::rng::mix(&[out.log_hash, cell as u64]);
        if detail {
            out.sample = Some(json!({"call": describe_call(&su.call), "position": fam, "retries": r, "attempt_outcomes": format!("{vec:?}"), "silent_realised_as": if send_error { "send fails with an io::Error" } else { "no reply (request or reply lost)" },
                "reference_model": format!("{exp_sends} attempts, {exp:?}"), "observed_attempts": observed_sends, "result": describe_result(&run.result, &run.crash)}));
            out.schedule = run.world.render_history(150);
        }
        (out, t)
    }

    fn rule(&self) -> String {
        format!(
            "case index enumerates {} cells = 48 multi-position cells (Valve / Unreal 2, timeouts of the first k attempts at 2 or 3 request positions of the same query, k <= r) + {} (r, outcome vector) pairs (r in 0..=3, all vectors over {{silent, malformed, valid}} of length 1..=r+2) x {} request positions (Valve info/players/rules, FFOW, GameSpy 1, 2, 3 handshake and data, JC2M handshake and data, Quake, Unreal 2 info/rules/players, Minecraft Java, Bedrock, legacy, Mindustry); repetitions alternate how 'silent' is realised (no reply == request or reply lost; send fails with an io::Error; Valve: a challenge that is never followed by the reply; Valve, GameSpy 1 and 3: only the first datagram of a multi-datagram reply arrives), whether an optional section (Valve players / rules, Unreal 2 rules / players) is on Enforce or on Try, which of several malformed forms is sent (truncated; complete but for another session or request id, or of another kind), and redraw the server state; every cell runs the fault-free scenario and the faulty one; oracle = a 10-line reference model of the retry rule for the attempt count of the unit and the result class (Try: the query succeeds without the section), plus: no request is transmitted more than r+1 times, a Valve challenge is echoed exactly once; distinct = (cell, event-log hash)",
            cells().len() * POSITIONS.len() + 48,
            cells().len(),
            POSITIONS.len()
        )
    }

    fn assumptions(&self) -> Vec<String> {
        vec![
            "sections under test are set to Enforce (a failure fails the query) or to Try (it must not)".into(),
            "late replies (arriving after the timeout) are not in this property's quantifier and are not injected".into(),
            "a lost request and a lost reply are indistinguishable to the client and are realised as a silent server".into(),
        ]
    }

    fn required_probes(&self) -> Vec<&'static str> { vec!["silent_attempt", "malformed_reply", "send_error", "section_on_try", "challenge_then_silent", "first_datagram_then_silence"] }

    fn components(&self) -> Value { standard_components() }
}

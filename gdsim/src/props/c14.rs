//! C14 — definition-driven, per-game and protocol-level queries agree.
//! For every entry of GAMES: three call paths in identical simulated worlds.

use super::{describe_result, standard_components, SERVER_IP};
use crate::entry::{Call, Entry, Resp, GAMESPY_GAMES, QUAKE_GAMES, UNREAL2_GAMES, VALVE_GAMES};
use crate::harness::{json_diff, run_call, RunOut};
use crate::models::gamespy::{Gs1Server, Gs1State, Gs2Server, Gs2State, Gs3Server, Gs3State};
use crate::models::minecraft::{McHost, McTcpServer, McUdpServer, Variant, ORDER};
use crate::models::misc::{EcoHttp, EcoState, FfowState, MindustryState, OneShotServer, Savage2State};
use crate::models::quake::{QuakeServer, QuakeState};
use crate::models::unreal2::{self as um, Unreal2Server, Unreal2State};
use crate::models::valve::{self as vm, ValveServer, ValveState};
use crate::prop::{CaseOut, Prop, Tier, Violation};
use crate::scenarios::sorted_game_ids;
use crate::tape::{Tape, CFG};
use crate::world::{Proto, World};
use gamedig::games::minecraft::{LegacyGroup, Server as McServer};
use gamedig::protocols::gamespy::GameSpyVersion;
use gamedig::protocols::quake::QuakeVersion;
use gamedig::protocols::types::{ProprietaryProtocol, Protocol};
use gamedig::protocols::valve::{Engine, GatheringSettings};
use gamedig::Game;
use serde_json::{json, Value};
use std::net::SocketAddr;

pub struct C14;

pub const BEHAVIOURS: u64 = 6;

#[derive(Clone)]
pub enum Blueprint {
    Valve { st: ValveState, goldsrc: bool, quirk: bool, enc: [vm::KindEnc; 3], players_silent: bool, rules_silent: bool },
    Gs1(Vec<Vec<u8>>),
    Gs2(Gs2State),
    Gs3(Gs3State, Vec<Vec<u8>>),
    Quake(QuakeState),
    Unreal2 { info: Vec<u8>, rules: Vec<Vec<u8>>, players: Vec<Vec<u8>>, players_silent: bool, rules_silent: bool },
    Mc(McHost),
    Ffow(FfowState),
    Savage2(Savage2State),
    Mindustry(MindustryState),
    Eco(EcoState),
    Nothing,
}

/// The host as it exists in the world: the game's documented ports.
pub struct HostPorts {
    pub main: u16,
    pub bedrock: u16,
}

pub fn blueprint(game: &Game, behaviour: u64, t: &mut Tape) -> Blueprint {
    if behaviour == 4 {
        return Blueprint::Nothing;
    }
    match &game.protocol {
        Protocol::Valve(engine) => {
            let goldsrc = matches!(engine, Engine::GoldSrc(_));
            let obsolete = matches!(engine, Engine::GoldSrc(true));
            let ship = *engine == Engine::new(2400);
            let appid = match engine {
                Engine::Source(Some((main, ded))) => {
                    Some(match behaviour {
                        1 => ded.unwrap_or(*main),
                        2 => main.wrapping_add(7) & 0xff_ffff,
                        _ => *main,
                    })
                }
                _ => None,
            };
            let mut st = ValveState::generate(t, ship, obsolete, appid, 12, 12);
            st.fit(goldsrc);
            // Counter-Strike: Source servers of protocol 7 leave the size field out of split packets
            if game.name == "Counter-Strike: Source" && t.draw(CFG, 2) == 0 {
                st.protocol = 7;
            }
            let quirk = game.name == "Counter-Strike: Source" && st.protocol == 7;
            let enc = [vm::gen_enc(t, goldsrc, !quirk), vm::gen_enc(t, goldsrc, true), vm::gen_enc(t, goldsrc, true)];
            Blueprint::Valve { st, goldsrc, quirk, enc, players_silent: behaviour == 3, rules_silent: behaviour == 5 }
        }
        Protocol::Gamespy(GameSpyVersion::One) => {
            let st = Gs1State::generate(t, 8);
            Blueprint::Gs1(st.encode(t, 2, false))
        }
        Protocol::Gamespy(GameSpyVersion::Two) => {
            let mut st = Gs2State::generate(t, 8);
            st.fit();
            Blueprint::Gs2(st)
        }
        Protocol::Gamespy(GameSpyVersion::Three) => {
            let st = Gs3State::generate(t, 8, false);
            let p = st.payloads(t, 2);
            Blueprint::Gs3(st, p)
        }
        Protocol::Quake(v) => {
            let version = match v {
                QuakeVersion::One => 1,
                QuakeVersion::Two => 2,
                QuakeVersion::Three => 3,
            };
            let mut st = QuakeState::generate(t, version, 8, false);
            st.fit();
            Blueprint::Quake(st)
        }
        Protocol::Unreal2 => {
            let mut st = Unreal2State::generate(t, 8);
            st.num_players = st.players.len() as u32;
            let r = st.rules_datagrams(2, t);
            let p = st.players_datagrams(2, t);
            Blueprint::Unreal2 { info: st.info_datagram(), rules: r, players: p, players_silent: behaviour == 3, rules_silent: behaviour == 5 }
        }
        Protocol::PROPRIETARY(pp) => {
            match pp {
                ProprietaryProtocol::TheShip => {
                    let mut st = ValveState::generate(t, true, false, Some(if behaviour == 2 { 2407 } else { 2400 }), 8, 8);
                    st.fit(false);
                    let enc = [vm::gen_enc(t, false, true), vm::gen_enc(t, false, true), vm::gen_enc(t, false, true)];
                    Blueprint::Valve { st, goldsrc: false, quirk: false, enc, players_silent: behaviour == 3, rules_silent: behaviour == 5 }
                }
                ProprietaryProtocol::FFOW => Blueprint::Ffow(FfowState::generate(t)),
                ProprietaryProtocol::JC2M => {
                    let mut st = Gs3State::generate(t, 0, true);
                    if let Some(l) = &mut st.jc2m {
                        l.truncate(10);
                    }
                    let p = st.payloads(t, 1);
                    Blueprint::Gs3(st, p)
                }
                ProprietaryProtocol::Savage2 => Blueprint::Savage2(Savage2State::generate(t)),
                ProprietaryProtocol::Mindustry => Blueprint::Mindustry(MindustryState::generate(t)),
                ProprietaryProtocol::Eco => Blueprint::Eco(EcoState::generate(t)),
                ProprietaryProtocol::Minecraft(v) => {
                    let speaks: Vec<Variant> = match v {
                        Some(McServer::Java) => vec![Variant::Java],
                        Some(McServer::Bedrock) => vec![Variant::Bedrock],
                        Some(McServer::Legacy(LegacyGroup::V1_6)) => vec![Variant::L16],
                        Some(McServer::Legacy(LegacyGroup::V1_4)) => vec![Variant::L14],
                        Some(McServer::Legacy(LegacyGroup::VB1_8)) => vec![Variant::LB18],
                        None => {
                            let subset = 1 + t.draw(CFG, 31) as u32;
                            ORDER.iter().enumerate().filter(|(i, _)| subset & (1 << i) != 0).map(|(_, v)| *v).collect()
                        }
                    };
                    Blueprint::Mc(McHost::generate(t, speaks))
                }
            }
        }
    }
}

pub fn world_from(bp: &Blueprint, ports: &HostPorts, rt_seed: u64) -> World {
    let mut w = World::new(Tape::generate(rt_seed));
    let addr = SocketAddr::new(SERVER_IP, ports.main);
    match bp {
        Blueprint::Nothing => {}
        Blueprint::Valve { st, goldsrc, quirk, enc, players_silent, rules_silent } => {
            let mut s = ValveServer::new(st.clone());
            s.goldsrc_transport = *goldsrc;
            s.split_no_size = *quirk;
            for k in 0 .. 3 {
                s.enc[k] = enc[k].clone();
            }
            if *players_silent {
                s.outcomes[1] = vec![vm::Outcome::Silent];
            }
            if *rules_silent {
                s.outcomes[2] = vec![vm::Outcome::Silent];
            }
            w.add_server(addr, Proto::Udp, Box::new(s));
        }
        Blueprint::Gs1(d) => {
            w.add_server(addr, Proto::Udp, Box::new(Gs1Server::new(d.clone())));
        }
        Blueprint::Gs2(st) => {
            w.add_server(addr, Proto::Udp, Box::new(Gs2Server { st: st.clone(), outcomes: Vec::new(), attempts: 0, requests: Vec::new() }));
        }
        Blueprint::Gs3(st, p) => {
            w.add_server(addr, Proto::Udp, Box::new(Gs3Server::new(st.clone(), p.clone())));
        }
        Blueprint::Quake(st) => {
            w.add_server(addr, Proto::Udp, Box::new(QuakeServer { st: st.clone(), outcomes: Vec::new(), attempts: 0, requests: Vec::new() }));
        }
        Blueprint::Unreal2 { info, rules, players, players_silent, rules_silent } => {
            let mut s = Unreal2Server::new(info.clone(), rules.clone(), players.clone());
            if *players_silent {
                s.outcomes[2] = vec![crate::models::gamespy::Outcome::Silent];
            }
            if *rules_silent {
                s.outcomes[1] = vec![crate::models::gamespy::Outcome::Silent];
            }
            w.add_server(addr, Proto::Udp, Box::new(s));
        }
        Blueprint::Mc(host) => {
            if host.speaks.iter().any(|v| *v != Variant::Bedrock) {
                w.add_server(addr, Proto::Tcp, Box::new(McTcpServer::new(host.clone())));
            }
            w.add_server(SocketAddr::new(SERVER_IP, ports.bedrock), Proto::Udp, Box::new(McUdpServer { host: host.clone(), pings: Vec::new(), outcomes: Vec::new(), attempts: 0 }));
        }
        Blueprint::Ffow(st) => {
            let mut vs = ValveState::generate(&mut Tape::replay(Default::default()), false, false, None, 0, 0);
            vs.player_list.clear();
            let mut s = ValveServer::new(vs);
            s.ffow_payload = st.payload();
            w.add_server(addr, Proto::Udp, Box::new(s));
        }
        Blueprint::Savage2(st) => {
            w.add_server(addr, Proto::Udp, Box::new(OneShotServer::new(vec![0x01], st.datagram())));
        }
        Blueprint::Mindustry(st) => {
            w.add_server(addr, Proto::Udp, Box::new(OneShotServer::new(vec![0xfe, 0x01], st.datagram())));
        }
        Blueprint::Eco(st) => {
            if rt_seed & 1 == 0 {
                w.http = Some(Box::new(EcoHttp { st: st.clone(), expect_host: SERVER_IP.to_string(), expect_port: ports.main, requests: Vec::new(), fail: None }));
            } else {
                // a real HTTP/1.1 origin: the HTTP client itself runs
                let framing = match (rt_seed >> 1) % 3 {
                    0 => crate::models::misc::HttpFraming::ContentLength,
                    1 => crate::models::misc::HttpFraming::Chunked(vec![1 + ((rt_seed >> 8) % 700) as usize]),
                    _ => crate::models::misc::HttpFraming::UntilClose,
                };
                let mut srv = crate::models::misc::HttpTcpServer::new(st.body(), framing);
                srv.gzip = (rt_seed >> 4) & 1 == 1;
                w.add_server(addr, Proto::Tcp, Box::new(srv));
            }
        }
    }
    w
}

/// The documented per-game view of a protocol-level Valve response (both as JSON).
fn game_json_from_valve_json(v: &Value) -> Value {
    let info = &v["info"];
    let extra = |k: &str| info["extra_data"].get(k).cloned().unwrap_or(Value::Null);
    let players: Vec<Value> = v["players"]
        .as_array()
        .map(|a| a.iter().map(|p| json!({"name": p["name"], "score": p["score"], "duration": p["duration"]})).collect())
        .unwrap_or_default();
    json!({
        "protocol": info["protocol_version"],
        "name": info["name"],
        "map": info["map"],
        "game": info["game_mode"],
        "appid": info["appid"],
        "players_online": info["players_online"],
        "players_details": players,
        "players_maximum": info["players_maximum"],
        "players_bots": info["players_bots"],
        "server_type": info["server_type"],
        "has_password": info["has_password"],
        "vac_secured": info["vac_secured"],
        "version": info["game_version"],
        "port": extra("port"),
        "steam_id": extra("steam_id"),
        "tv_port": extra("tv_port"),
        "tv_name": extra("tv_name"),
        "keywords": extra("keywords"),
        "rules": if v["rules"].is_object() { v["rules"].clone() } else { json!({}) },
    })
}

/// (module-level entry, protocol-level entry) for a definition.
fn paths(id: &'static str, game: &Game) -> (Option<Entry>, Option<Entry>) {
    // modules are matched by id, else by the game's full name (ut2004 <-> unrealtournament2004)
    // battalion1944 has a hand-written module (rule overrides) on top of the Valve protocol
    let module_valve = if id == "battalion1944" { Some(Entry::Battalion) } else { VALVE_GAMES.iter().position(|r| r.module == id || r.name == game.name).map(Entry::ValveGame) };
    match &game.protocol {
        Protocol::Valve(engine) => {
            let gs: GatheringSettings = game.request_settings.clone().into();
            (module_valve, Some(Entry::Valve { engine: *engine, gather: Some(gs) }))
        }
        Protocol::Gamespy(v) => {
            let version = match v {
                GameSpyVersion::One => 1,
                GameSpyVersion::Two => 2,
                GameSpyVersion::Three => 3,
            };
            (GAMESPY_GAMES.iter().position(|r| r.module == id || r.name == game.name).map(Entry::GsGame), Some(Entry::Gs { version, vars: false }))
        }
        Protocol::Quake(v) => {
            let version = match v {
                QuakeVersion::One => 1,
                QuakeVersion::Two => 2,
                QuakeVersion::Three => 3,
            };
            (QUAKE_GAMES.iter().position(|r| r.module == id || r.name == game.name).map(Entry::QuakeGame), Some(Entry::Quake { version }))
        }
        Protocol::Unreal2 => {
            // the definition-driven path with no extra settings uses the protocol's default gathering
            (UNREAL2_GAMES.iter().position(|r| r.module == id || r.name == game.name).map(Entry::Unreal2Game), Some(Entry::Unreal2 { gather: Default::default() }))
        }
        Protocol::PROPRIETARY(pp) => {
            match pp {
                ProprietaryProtocol::TheShip => (Some(Entry::TheShip { with_timeout: false }), Some(Entry::TheShip { with_timeout: true })),
                ProprietaryProtocol::FFOW => (Some(Entry::Ffow { with_timeout: false }), Some(Entry::Ffow { with_timeout: true })),
                ProprietaryProtocol::JC2M => (Some(Entry::Jc2m { with_timeout: false }), Some(Entry::Jc2m { with_timeout: true })),
                ProprietaryProtocol::Savage2 => (Some(Entry::Savage2 { with_timeout: false }), Some(Entry::Savage2 { with_timeout: true })),
                ProprietaryProtocol::Mindustry => (None, Some(Entry::Mindustry)),
                ProprietaryProtocol::Eco => (Some(Entry::Eco { level: 0 }), Some(Entry::Eco { level: 2 })),
                ProprietaryProtocol::Minecraft(v) => {
                    match v {
                        None => (Some(Entry::McGameAuto), Some(Entry::McAuto { settings: None })),
                        Some(McServer::Java) => (Some(Entry::McGameJava { settings: None }), Some(Entry::McJava { settings: None })),
                        Some(McServer::Bedrock) => (Some(Entry::McGameBedrock), Some(Entry::McBedrock)),
                        Some(McServer::Legacy(g)) => (Some(Entry::McGameLegacySpecific(*g)), Some(Entry::McLegacySpecific(*g))),
                    }
                }
            }
        }
    }
}

struct Obs {
    /// socket timeouts applied (read / write / connect), in order
    timeouts: Vec<String>,
    sends: Vec<(SocketAddr, Vec<u8>)>,
    class: String,
    /// protocol-specific value (canonical JSON), common view, original view
    specific: Option<Value>,
    common: Option<Value>,
    original: Option<Value>,
    text: String,
}

fn canon(mut v: Value) -> Value {
    // unreal2 lists are unordered; master-server style maps are maps already
    um::canonicalise(&mut v);
    if let Some(inner) = v.get_mut("Unreal2") {
        um::canonicalise(inner);
    }
    v
}

fn observe(run: &RunOut, http_as_send: bool) -> Obs {
    let mut sends = run.world.client_sends();
    if http_as_send {
        for h in &run.world.hist {
            if let crate::world::Hist::Http { method, url, .. } = h {
                sends.push((SocketAddr::new(SERVER_IP, 0), format!("{method} {url}").into_bytes()));
            }
        }
    }
    let text = describe_result(&run.result, &run.crash);
    let timeouts: Vec<String> = run
        .world
        .hist
        .iter()
        .filter_map(|h| {
            match h {
                crate::world::Hist::SetTimeout { read, value, .. } => Some(format!("{}={value:?}", if *read { "read" } else { "write" })),
                crate::world::Hist::TcpConnect { timeout, .. } => Some(format!("connect={timeout:?}")),
                _ => None,
            }
        })
        .collect();
    match (&run.crash, &run.result) {
        (Some(c), _) => Obs { timeouts, sends, class: c.signature(), specific: None, common: None, original: None, text },
        (_, Some(Err(e))) => Obs { timeouts, sends, class: format!("Err/{:?}", e.kind), specific: None, common: None, original: None, text },
        (_, Some(Ok(r))) => {
            let (specific, common, original) = match r {
                Resp::Generic { json, original, .. } => (None, Some(json.clone()), Some(canon(original.clone()))),
                other => {
                    let c = other.common();
                    (
                        Some(canon(other.to_json())),
                        c.map(|c| serde_json::to_value(c.as_json()).unwrap()),
                        c.map(|c| canon(serde_json::to_value(c.as_original()).unwrap())),
                    )
                }
            };
            Obs { timeouts, sends, class: "Ok".into(), specific, common, original, text }
        }
        _ => Obs { timeouts, sends, class: "none".into(), specific: None, common: None, original: None, text },
    }
}

impl Prop for C14 {
    fn id(&self) -> &'static str { "C14" }

    fn level(&self) -> &'static str { "exploration" }

    fn cases(&self, tier: Tier) -> u64 {
        let n = sorted_game_ids().len() as u64 * BEHAVIOURS * 2 * 2;
        match tier {
            Tier::Quick => n * 3,
            Tier::Thorough => n * 300,
        }
    }

    fn run_case(&self, idx: u64, mut t: Tape, detail: bool) -> (CaseOut, Tape) {
        let mut out = CaseOut::default();
        let ids = sorted_game_ids();
        let id = ids[(idx % ids.len() as u64) as usize];
        let behaviour = (idx / ids.len() as u64) % BEHAVIOURS;
        let port_given = (idx / (ids.len() as u64 * BEHAVIOURS)) % 2 == 1;
        // every other block passes explicit timeout settings (retries 1, sub-default durations): the
        // per-game modules take none, so only the generic and the protocol-level paths are compared
        let with_ts = (idx / (ids.len() as u64 * BEHAVIOURS * 2)) % 2 == 1;
        let ts = with_ts.then(|| {
            let d = |t: &mut Tape| std::time::Duration::from_millis(*t.pick(CFG, &[250u64, 1000, 2500]));
            gamedig::protocols::types::TimeoutSettings::new(Some(d(&mut t)), Some(d(&mut t)), Some(d(&mut t)), 1).unwrap()
        });
        let game = gamedig::GAMES.get(id).unwrap();
        let golden = crate::golden::port(id).unwrap_or(game.default_port);
        // (the given port is the given port: now and then 0 or 65535)
        let explicit = match t.draw(CFG, 10) {
            0 => 0,
            1 => 65_535,
            _ => 1024 + t.draw(CFG, 60_000) as u16,
        };
        let port = port_given.then_some(explicit);
        // the host lives on the port the caller means: the given one, else the game's documented default;
        // a Minecraft host additionally answers Bedrock on the Bedrock default port when no port is given
        let ports = HostPorts {
            main: port.unwrap_or(golden),
            bedrock: if matches!(game.protocol, Protocol::PROPRIETARY(ProprietaryProtocol::Minecraft(None))) { port.unwrap_or(19132) } else { port.unwrap_or(golden) },
        };
        let bp = blueprint(game, behaviour, &mut t);
        let rt_seed = t.full_u64(CFG);
        let (module_entry, mut protocol_entry) = paths(id, game);
        // in the blocks without a module path, Valve games are also queried with extra request settings in
        // which some fields are left out: a field left out means the protocol's documented default
        // (Try / Try / check on), whatever the game's definition says
        let mut extra: Option<gamedig::protocols::types::ExtraRequestSettings> = None;
        if with_ts && t.draw(CFG, 2) == 0 {
            if let (Protocol::Valve(engine), Some(Entry::Valve { .. })) = (&game.protocol, &protocol_entry) {
                let opt = |t: &mut Tape| if t.draw(CFG, 2) == 0 { None } else { Some(crate::gen::toggle(t)) };
                let (gp, gr) = (opt(&mut t), opt(&mut t));
                let chk = if t.draw(CFG, 2) == 0 { None } else { Some(t.draw(CFG, 2) == 0) };
                extra = Some(gamedig::protocols::types::ExtraRequestSettings { hostname: None, protocol_version: None, gather_players: gp, gather_rules: gr, check_app_id: chk });
                let gs = GatheringSettings { players: gp.unwrap_or(gamedig::protocols::types::GatherToggle::Try), rules: gr.unwrap_or(gamedig::protocols::types::GatherToggle::Try), check_app_id: chk.unwrap_or(true) };
                protocol_entry = Some(Entry::Valve { engine: *engine, gather: Some(gs) });
                out.probe("extra_request_settings_with_fields_left_out");
            }
            // the same for Unreal 2 games (protocol defaults: players Try, mutators and rules Enforce)
            if let (Protocol::Unreal2, Some(Entry::Unreal2 { .. })) = (&game.protocol, &protocol_entry) {
                use gamedig::protocols::types::GatherToggle;
                let opt = |t: &mut Tape| if t.draw(CFG, 2) == 0 { None } else { Some(crate::gen::toggle(t)) };
                let (gp, gr) = (opt(&mut t), opt(&mut t));
                extra = Some(gamedig::protocols::types::ExtraRequestSettings { hostname: None, protocol_version: None, gather_players: gp, gather_rules: gr, check_app_id: None });
                let g = gamedig::protocols::unreal2::GatheringSettings { players: gp.unwrap_or(GatherToggle::Try), mutators_and_rules: gr.unwrap_or(GatherToggle::Enforce) };
                protocol_entry = Some(Entry::Unreal2 { gather: g });
                out.probe("extra_request_settings_with_fields_left_out");
            }
        }
        // ... and for the Minecraft definitions that start with the Java query: a host name and / or a protocol
        // version, each given or left out (left out: "gamedig" / -1, the documented defaults)
        if with_ts && extra.is_none() && t.draw(CFG, 2) == 0 {
            if let Some(Entry::McJava { .. } | Entry::McAuto { .. }) = &protocol_entry {
                let hostname = if t.draw(CFG, 2) == 0 { None } else { Some((*t.pick(CFG, &["play.example.org", "x", "mc.é.example", ""])).to_string()) };
                let protocol_version = if t.draw(CFG, 2) == 0 { None } else { Some(*t.pick(CFG, &[-1i32, 0, 47, 760, i32::MAX, i32::MIN])) };
                extra = Some(gamedig::protocols::types::ExtraRequestSettings { hostname: hostname.clone(), protocol_version, gather_players: None, gather_rules: None, check_app_id: None });
                let settings = Some(gamedig::games::minecraft::RequestSettings { hostname: hostname.unwrap_or_else(|| "gamedig".to_string()), protocol_version: protocol_version.unwrap_or(-1) });
                protocol_entry = Some(match &protocol_entry {
                    Some(Entry::McJava { .. }) => Entry::McJava { settings },
                    _ => Entry::McAuto { settings },
                });
                out.probe("extra_request_settings_with_fields_left_out");
            }
        }
        let eco = matches!(game.protocol, Protocol::PROPRIETARY(ProprietaryProtocol::Eco));
        let run_path = |entry: Entry| -> RunOut {
            let call = Call { entry, ip: SERVER_IP, port, default_port: golden, timeout: ts };
            run_call(world_from(&bp, &ports, rt_seed), &call)
        };
        // (a) the generic definition-driven entry point
        let ra = run_path(Entry::Generic { game_id: id, extra: extra.clone(), level: 2 });
        let module_entry = if with_ts { None } else { module_entry };
        if with_ts {
            out.probe("explicit_timeout_settings");
        }
        let oa = observe(&ra, eco);
        out.absorb(&ra.world);
        let mut sample_paths = vec![json!({"path": "generic", "result": oa.text, "sends": oa.sends.len()})];
        // with no port given every request goes to the definition's default port
        if port.is_none() {
            let mc_auto = matches!(game.protocol, Protocol::PROPRIETARY(ProprietaryProtocol::Minecraft(None)));
            for (to, d) in &oa.sends {
                let http_port = if eco { String::from_utf8_lossy(d).rsplit(':').next().and_then(|s| s.split('/').next().and_then(|p| p.parse::<u16>().ok())) } else { None };
                let p = http_port.unwrap_or(to.port());
                if p != golden && !(mc_auto && d.len() == 33) {
                    out.violate(Violation::new(format!("{id}|generic|not-the-definition-default-port"), "no port given: a request did not go to the definition's default port", golden.to_string(), p.to_string()));
                    break;
                }
            }
        }
        let compare = |name: &str, ob: &Obs, out: &mut CaseOut| {
            // destination + request bytes
            if oa.sends != ob.sends {
                let (i, what) = oa
                    .sends
                    .iter()
                    .zip(ob.sends.iter())
                    .position(|(x, y)| x != y)
                    .map(|i| (i, if oa.sends[i].0 != ob.sends[i].0 { "destination" } else { "request-bytes" }))
                    .unwrap_or((oa.sends.len().min(ob.sends.len()), "request-count"));
                let fmt = |s: &Vec<(SocketAddr, Vec<u8>)>| s.get(i).map_or("<none>".to_string(), |(a, d)| format!("{a} {}", d.iter().take(32).map(|b| format!("{b:02x}")).collect::<String>()));
                out.violate(Violation::new(
                    format!("{id}|{name}|{what}"),
                    format!("generic vs {name}: transmission #{i} differs ({what})"),
                    fmt(&oa.sends),
                    fmt(&ob.sends),
                ));
                return;
            }
            if oa.timeouts != ob.timeouts {
                out.violate(Violation::new(format!("{id}|{name}|socket-timeouts"), format!("generic vs {name}: different timeouts applied to the sockets"), format!("{:?}", oa.timeouts), format!("{:?}", ob.timeouts)));
                return;
            }
            if oa.class != ob.class {
                out.violate(Violation::new(format!("{id}|{name}|result-class"), format!("generic vs {name}: different outcome"), oa.text.clone(), ob.text.clone()));
                return;
            }
            if let (Some(a), Some(b)) = (&oa.common, &ob.common) {
                if let Some((p, e, o)) = json_diff(a, b) {
                    out.violate(Violation::new(format!("{id}|{name}|common-view"), format!("generic vs {name}: common view differs at {p}"), e, o));
                }
            }
            if let (Some(a), Some(b)) = (&oa.original, &ob.original) {
                if let Some((p, e, o)) = json_diff(a, b) {
                    out.violate(Violation::new(format!("{id}|{name}|original-view"), format!("generic vs {name}: protocol-specific value differs at {p}"), e, o));
                }
            }
        };
        // (c) the protocol's own query function with the definition's parameters
        let mut oc: Option<Obs> = None;
        if let Some(e) = protocol_entry {
            let rc = run_path(e);
            let o = observe(&rc, eco);
            out.absorb(&rc.world);
            sample_paths.push(json!({"path": "protocol", "result": o.text, "sends": o.sends.len()}));
            compare("protocol", &o, &mut out);
            oc = Some(o);
        }
        // (b) the game's dedicated module
        if let Some(e) = module_entry {
            let is_valve_module = matches!(e, Entry::ValveGame(_) | Entry::Battalion);
            let overrides = matches!(e, Entry::Battalion);
            let rb = run_path(e);
            let mut ob = observe(&rb, eco);
            out.absorb(&rb.world);
            sample_paths.push(json!({"path": "module", "result": ob.text, "sends": ob.sends.len()}));
            if is_valve_module {
                // the module returns the per-game response type: compare it with the protocol path's
                // response converted by the library's own conversion
                ob.common = None;
                ob.original = None;
                compare("module", &ob, &mut out);
                if let (Some(Ok(Resp::ValveGame(g))), Some(o)) = (&rb.result, &oc) {
                    if let Some(spec) = &o.specific {
                        // the per-game view of the protocol path's response, field by field (not through the
                        // library's own conversion, which is part of what is being compared)
                        let conv = game_json_from_valve_json(spec);
                        // (the Battalion 1944 module rewrites fields from its rules: C07 owns those values)
                        if overrides {
                            out.probe("module_with_overrides_compared_by_outcome_and_requests");
                        } else if let Some((p, e2, o2)) = json_diff(&conv, &serde_json::to_value(g).unwrap()) {
                            out.violate(Violation::new(format!("{id}|module|game-response"), format!("module vs protocol: per-game response differs at {p}"), e2, o2));
                        }
                    }
                }
            } else {
                compare("module", &ob, &mut out);
            }
        } else {
            out.probe("game_without_dedicated_module");
        }
        out.nontrivial = true;
        out.distinct_key = crate::rng::mix(&[out.log_hash, idx % (ids.len() as u64 * BEHAVIOURS * 2)]);
        if detail {
            let bname = ["valid (main app id)", "valid (dedicated app id)", "valid (foreign app id)", "partial (players section silent)", "silence", "partial (rules section silent)"][behaviour as usize];
            out.sample = Some(json!({"game": id, "behaviour": bname,
                "port": port, "paths": sample_paths}));
            out.schedule = ra.world.render_history(60);
        }
        (out, t)
    }

    fn rule(&self) -> String {
        "case index enumerates every entry of the definitions table x 6 server behaviours (valid with the main / dedicated / a foreign app id, partial: players section silent, partial: rules section silent, total silence) x port given / omitted x default / explicit timeout settings (explicit: generic vs protocol-level only, the modules take none); the tape draws the server state and transport; each case builds three identical worlds (same state, same runtime seed) and runs (a) query_with_timeout_and_extra_settings, (b) the game's dedicated module where one exists, (c) the protocol's own query function with the definition's parameters; oracle: same destination port and request bytes in the same order, same outcome class / error kind, equal common view and protocol-specific value (per-game Valve responses against a field-by-field mapping of the protocol-level response written in the check); distinct = (cell, event-log hash)".to_string()
    }

    fn assumptions(&self) -> Vec<String> {
        vec![
            "the simulated host listens on the given port, else on the game's documented default (golden snapshot of the definitions table); a Minecraft host answers Bedrock on 19132 when no port is given".into(),
            "per-game modules take no timeout argument: they are compared under the default timeouts only".into(),
        ]
    }

    fn components(&self) -> Value { standard_components() }
}

//! C15 — the protocol-independent view equals the protocol-specific data.
//! A pure projection: the simulator only supplies the population (responses
//! obtained through the real decode paths from model servers).

use super::{c02, c03, c04, c05, c06, c07, standard_components, SERVER_IP};
use crate::entry::{accessors_json, Resp};
use crate::harness::{json_diff, run_call};
use crate::prop::{CaseOut, Prop, Tier, Violation};
use crate::tape::Tape;
use crate::world::{Proto, World};
use serde_json::{json, Value};

pub struct C15;

/// (generic accessor, JSON pointer in the protocol-specific response) per response type,
/// written from RESPONSES.md and the field documentation.
fn table(r: &Resp) -> Option<(&'static str, Vec<(&'static str, &'static str)>, Option<(&'static str, &'static str, Option<&'static str>)>)> {
    // returns (type name, scalar mappings, players: (list pointer, name field, score field))
    Some(match r {
        Resp::Valve(_) => (
            "valve",
            vec![
                ("name", "/info/name"),
                ("game_mode", "/info/game_mode"),
                ("game_version", "/info/game_version"),
                ("map", "/info/map"),
                ("players_maximum", "/info/players_maximum"),
                ("players_online", "/info/players_online"),
                ("players_bots", "/info/players_bots"),
                ("has_password", "/info/has_password"),
            ],
            Some(("/players", "name", Some("score"))),
        ),
        Resp::TheShip(_) => (
            "theship",
            vec![
                ("name", "/name"),
                ("map", "/map"),
                ("game_mode", "/game_mode"),
                ("game_version", "/game_version"),
                ("players_maximum", "/players_maximum"),
                ("players_online", "/players_online"),
                ("players_bots", "/players_bots"),
                ("has_password", "/has_password"),
            ],
            Some(("/players", "name", Some("score"))),
        ),
        Resp::Gs1(_) | Resp::Gs3(_) => (
            if matches!(r, Resp::Gs1(_)) { "gamespy1" } else { "gamespy3" },
            vec![
                ("name", "/name"),
                ("map", "/map"),
                ("has_password", "/has_password"),
                ("game_mode", "/game_mode"),
                ("game_version", "/game_version"),
                ("players_maximum", "/players_maximum"),
                ("players_online", "/players_online"),
            ],
            Some(("/players", "name", Some("score"))),
        ),
        Resp::Gs2(_) => (
            "gamespy2",
            vec![("name", "/name"), ("map", "/map"), ("has_password", "/has_password"), ("players_maximum", "/players_maximum"), ("players_online", "/players_online")],
            Some(("/players", "name", Some("score"))),
        ),
        Resp::Q1(_) | Resp::Q23(_) => (
            "quake",
            vec![("name", "/name"), ("game_version", "/game_version"), ("map", "/map"), ("players_maximum", "/players_maximum"), ("players_online", "/players_online")],
            Some(("/players", "name", Some("score"))),
        ),
        Resp::Unreal2(_) => (
            "unreal2",
            vec![
                ("name", "/server_info/name"),
                ("game_mode", "/server_info/game_type"),
                ("map", "/server_info/map"),
                ("players_maximum", "/server_info/max_players"),
                ("players_online", "/server_info/num_players"),
                ("has_password", "/server_info/password"),
            ],
            Some(("/players/players", "name", Some("score"))),
        ),
        Resp::Java(_) => (
            "minecraft-java",
            vec![("description", "/description"), ("players_maximum", "/players_maximum"), ("players_online", "/players_online"), ("game_version", "/game_version")],
            Some(("/players", "name", None)),
        ),
        Resp::Bedrock(_) => (
            "minecraft-bedrock",
            vec![("name", "/name"), ("map", "/map"), ("game_version", "/version_name"), ("players_maximum", "/players_maximum"), ("players_online", "/players_online")],
            None,
        ),
        Resp::Ffow(_) => (
            "ffow",
            vec![
                ("name", "/name"),
                ("description", "/description"),
                ("game_mode", "/game_mode"),
                ("game_version", "/game_version"),
                ("map", "/map"),
                ("has_password", "/has_password"),
                ("players_maximum", "/players_maximum"),
                ("players_online", "/players_online"),
            ],
            None,
        ),
        Resp::Savage2(_) => (
            "savage2",
            vec![("name", "/name"), ("game_mode", "/game_mode"), ("map", "/map"), ("players_maximum", "/players_maximum"), ("players_online", "/players_online")],
            None,
        ),
        Resp::Jc2m(_) => (
            "jc2m",
            vec![
                ("game_version", "/game_version"),
                ("description", "/description"),
                ("name", "/name"),
                ("has_password", "/has_password"),
                ("players_maximum", "/players_maximum"),
                ("players_online", "/players_online"),
            ],
            Some(("/players", "name", None)),
        ),
        Resp::Eco(_) => (
            "eco",
            vec![
                ("players_online", "/players_online"),
                ("players_maximum", "/players_maximum"),
                ("description", "/description"),
                ("game_version", "/game_version"),
                ("has_password", "/has_password"),
            ],
            Some(("/players", "name", None)),
        ),
        Resp::Mindustry(_) => ("mindustry", vec![("map", "/map"), ("description", "/description")], None),
        _ => return None,
    })
}

/// Replace about one leaf in four of a JSON value by another value of the same JSON type.
fn perturb(v: &mut Value, t: &mut Tape, depth: usize) {
    use crate::tape::DATA;
    match v {
        Value::Object(o) => {
            for (_, x) in o.iter_mut() {
                perturb(x, t, depth + 1);
            }
        }
        Value::Array(a) => {
            match t.draw(DATA, 6) {
                0 => a.clear(),
                1 => a.truncate(1),
                2 if !a.is_empty() && a.len() < 300 => {
                    let x = a[0].clone();
                    a.push(x);
                }
                _ => {}
            }
            for x in a.iter_mut().take(8) {
                perturb(x, t, depth + 1);
            }
        }
        Value::Number(n) if t.draw(DATA, 4) == 0 => {
            if n.is_f64() {
                *v = serde_json::json!(*t.pick(DATA, &[0.0f64, 1.0, -1.0, 0.5, 1e9]));
            } else {
                *v = serde_json::json!(*t.pick(DATA, &[0u64, 1, 2, 3, 127, 255]));
            }
        }
        Value::String(s) if t.draw(DATA, 4) == 0 => {
            *s = (*t.pick(DATA, &["", "x", "a/b", " ", "0", "true"])).to_string();
        }
        Value::Bool(b) if t.draw(DATA, 4) == 0 => *b = !*b,
        _ => {}
    }
}

pub fn check_view(out: &mut CaseOut, r: &Resp) {
    let Some(c) = r.common() else { return };
    let Some((ty, scalars, players)) = table(r) else { return };
    let spec = r.to_json();
    let acc = accessors_json(c);
    out.probe("view_checked");
    let all = ["name", "description", "game_mode", "game_version", "map", "players_maximum", "players_online", "players_bots", "has_password"];
    for field in all {
        let got = acc.get(field).cloned().unwrap_or(Value::Null);
        let want = match scalars.iter().find(|(g, _)| *g == field) {
            Some((_, ptr)) => spec.pointer(ptr).cloned().unwrap_or(Value::Null),
            None => {
                if ty == "mindustry" && matches!(field, "game_mode" | "players_maximum" | "players_online") {
                    continue; // derived values, checked below
                }
                if ty == "minecraft-bedrock" && field == "game_mode" {
                    continue; // RESPONSES.md lists it, the enum has no textual form: not judged
                }
                if field == "players_maximum" || field == "players_online" {
                    continue;
                }
                Value::Null
            }
        };
        // u8 / u32 widening keeps the value
        let same = got == want || (got.as_u64().is_some() && got.as_u64() == want.as_u64());
        if !same {
            out.violate(Violation::new(
                format!("{ty}|accessor/{field}"),
                format!("{ty}: the protocol-independent `{field}` is not the value of the corresponding protocol-specific field"),
                want.to_string(),
                got.to_string(),
            ));
        }
    }
    if ty == "mindustry" {
        let want_on = spec["players"].as_i64().map_or(0, |v| v.max(0));
        let want_max = spec["player_limit"].as_i64().map_or(0, |v| v.max(0));
        if acc["players_online"].as_i64() != Some(want_on) || acc["players_maximum"].as_i64() != Some(want_max) {
            out.violate(Violation::new("mindustry|accessor/player-counts", "mindustry: player counts of the common view", format!("{want_on}/{want_max}"), format!("{}/{}", acc["players_online"], acc["players_maximum"])));
        }
        let want_mode = spec["gamemode"].as_str().map(str::to_lowercase);
        if acc["game_mode"].as_str().map(str::to_string) != want_mode {
            out.violate(Violation::new("mindustry|accessor/game_mode", "mindustry: game mode of the common view", format!("{want_mode:?}"), acc["game_mode"].to_string()));
        }
    }
    // players
    match players {
        Some((ptr, name_f, score_f)) => {
            let list = spec.pointer(ptr).cloned().unwrap_or(Value::Null);
            let want: Value = match list.as_array() {
                Some(a) => Value::Array(a.iter().map(|p| json!({"name": p[name_f], "score": score_f.map_or(Value::Null, |f| p[f].clone())})).collect()),
                None => Value::Null,
            };
            if let Some((p, e, o)) = json_diff(&want, &acc["players"]) {
                out.violate(Violation::new(format!("{ty}|accessor/players"), format!("{ty}: players of the common view differ at {p}"), e, o));
            }
        }
        None => {
            if !acc["players"].is_null() {
                out.violate(Violation::new(format!("{ty}|accessor/players"), format!("{ty}: the common view lists players the response type does not have"), "null", acc["players"].to_string()));
            }
        }
    }
    // as_json() carries exactly the accessor values
    let j = serde_json::to_value(c.as_json()).unwrap();
    if let Some((p, e, o)) = json_diff(&acc, &j) {
        out.violate(Violation::new(format!("{ty}|as_json"), format!("{ty}: as_json() differs from the accessors at {p}"), e, o));
    }
    // as_original() is the response itself
    let orig = serde_json::to_value(c.as_original()).unwrap();
    // strip the enum wrappers ({"Valve": {...}}, {"GameSpy": {"One": {...}}}, ...)
    let mut inner = &orig;
    while let Some(o) = inner.as_object() {
        if o.len() == 1 && o.keys().next().map_or(false, |k| k.chars().next().map_or(false, char::is_uppercase)) && o.values().next().map_or(false, Value::is_object) {
            inner = o.values().next().unwrap();
        } else {
            break;
        }
    }
    if let Some((p, e, o)) = json_diff(&spec, inner) {
        out.violate(Violation::new(format!("{ty}|as_original"), format!("{ty}: as_original() is not the response unchanged (at {p})"), e, o));
    }
}

const SOURCES: u64 = 8;

impl Prop for C15 {
    fn id(&self) -> &'static str { "C15" }

    fn level(&self) -> &'static str { "exploration" }

    fn cases(&self, tier: Tier) -> u64 {
        match tier {
            Tier::Quick => 40_000,
            Tier::Thorough => 2_000_000,
        }
    }

    fn run_case(&self, idx: u64, mut t: Tape, detail: bool) -> (CaseOut, Tape) {
        let mut out = CaseOut::default();
        let (call, world, d) = match idx % SOURCES {
            0 | 1 => {
                let scn = c02::scenario(&mut t, 30);
                let srv = scn.server();
                let addr = scn.addr();
                let mut w = World::new(t);
                w.add_server(addr, Proto::Udp, Box::new(srv));
                (scn.call, w, json!({"source": "valve"}))
            }
            2 => {
                let b = c04::build(t);
                (b.call, b.world, b.detail)
            }
            3 => {
                let b = c05::build(t);
                (b.call, b.world, b.detail)
            }
            4 => {
                let b = c06::build(t, None);
                (b.call, b.world, b.detail)
            }
            5 => {
                let m = c03::build(t, 31, 2 + (idx / SOURCES) % 10);
                (m.built.call, m.built.world, m.built.detail)
            }
            _ => {
                let b = c07::build(t, (idx / SOURCES) % c07::GAMES7);
                (b.call, b.world, b.detail)
            }
        };
        let _ = SERVER_IP;
        let mut run = run_call(world, &call);
        if let Some(Ok(r)) = &run.result {
            check_view(&mut out, r);
            out.nontrivial = r.common().is_some();
            // responses that no wire produces: the same value with some of its numbers, strings, options
            // and lists replaced (counts that disagree with the lists, zero limits, empty lists and names),
            // rebuilt through the type's own Deserialize
            let tape = &mut run.world.tape;
            for _ in 0 .. 3 {
                let mut j = r.to_json();
                perturb(&mut j, tape, 0);
                if let Some(r2) = r.rebuild(j) {
                    out.probe("directly_built_value_checked");
                    check_view(&mut out, &r2);
                }
            }
        }
        out.absorb(&run.world);
        out.nontrivial = out.nontrivial && matches!(run.result, Some(Ok(_)));
        out.distinct_key = out.log_hash;
        if detail {
            out.sample = Some(json!({"call": super::describe_call(&call), "scenario": d, "result": super::describe_result(&run.result, &run.crash)}));
        }
        let tape = std::mem::replace(&mut run.world.tape, Tape::replay(Default::default()));
        (out, tape)
    }

    fn rule(&self) -> String {
        "the population is every successful response of the C02-C07 workloads (all gather settings, all response and player types reachable through a wire: Valve, The Ship, GameSpy 1/2/3, Quake 1 and 2/3, Unreal 2, Minecraft Java / Bedrock / legacy, FFOW, Savage 2, JC2M, Mindustry, Eco); oracle = a table written from RESPONSES.md and the field documentation: every accessor equals the named protocol-specific field, as_json() equals the accessors, as_original() serialises to the very response; non-trivial = the query returned a response with a common view; distinct = distinct event-log hash".to_string()
    }

    fn assumptions(&self) -> Vec<String> {
        vec![
            "a pure projection with no schedule or fault in it: the simulator contributes the wire-obtained responses; on top of each, three variants that no wire produces are built through the type's own Deserialize (about one leaf in four replaced: counts that disagree with the lists, zero limits, empty lists and names, flipped flags) and judged by the same table".into(),
            "the Bedrock game mode (an enum without a textual form) is not judged although RESPONSES.md lists it".into(),
        ]
    }

    fn required_probes(&self) -> Vec<&'static str> { vec!["view_checked"] }

    fn components(&self) -> Value { standard_components() }
}

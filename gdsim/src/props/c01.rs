//! C01 — hostile server responses never crash or hang a query.

use super::{crash_violation, describe_call, describe_result, standard_components, SERVER_IP};
use crate::harness::run_call;
use crate::hostile::{self, HostileHttp, HostileServer};
use crate::prop::{CaseOut, Prop, Tier, Violation};
use crate::scenarios::gen_scenario;
use crate::tape::{Tape, CFG};
use crate::world::{NetCfg, World};
use serde_json::{json, Value};

pub struct C01;

/// Build the hostile world for a scenario; returns (world, rendered script).
pub fn hostile_world(mut t: Tape, scn: &crate::scenarios::Scenario, extreme: bool, io_faults: bool) -> (World, Vec<String>) {
    let mut rendered = Vec::new();
    let mut servers = Vec::new();
    for p in &scn.placements {
        let script = hostile::script(&mut t, p.fam, extreme);
        for (i, d) in script.iter().enumerate() {
            if rendered.len() < 16 {
                let hex: String = d.iter().take(40).map(|b| format!("{b:02x}")).collect();
                rendered.push(format!("{:?}@{} reply[{i}] len={} {hex}", p.fam, p.addr, d.len()));
            }
        }
        let srv = HostileServer::new(&mut t, script);
        servers.push((p.addr, p.proto, srv));
    }
    let http_script = if scn.http { Some(hostile::script(&mut t, hostile::Fam::Eco, extreme)) } else { None };
    let io_ppm = if io_faults && t.draw(CFG, 4) == 0 { 1000 * (1 + t.draw(CFG, 100)) } else { 0 };
    let short_write = if io_faults && t.draw(CFG, 4) == 0 { 200_000 } else { 0 };
    let seg = if t.draw(CFG, 2) == 0 { 500_000 } else { 0 };
    let mut w = World::new(t);
    w.net = NetCfg::clean();
    w.net.tcp_segment_ppm = seg;
    w.os.io_error_ppm = io_ppm;
    w.os.short_write_ppm = short_write;
    for (addr, proto, srv) in servers {
        w.add_server(addr, proto, Box::new(srv));
    }
    if let Some(s) = http_script {
        w.http = Some(Box::new(HostileHttp { script: s, next: 0 }));
    }
    (w, rendered)
}

impl Prop for C01 {
    fn id(&self) -> &'static str { "C01" }

    fn level(&self) -> &'static str { "exploration" }

    fn cases(&self, tier: Tier) -> u64 {
        match tier {
            Tier::Quick => 300_000,
            Tier::Thorough => 12_000_000,
        }
    }

    fn run_case(&self, _idx: u64, mut t: Tape, detail: bool) -> (CaseOut, Tape) {
        let mut out = CaseOut::default();
        let scn = gen_scenario(&mut t, SERVER_IP, 2);
        let (mut w, script) = hostile_world(t, &scn, false, true);
        // budget: generous multiple of what any exchange needs; a client that keeps
        // issuing socket operations after the server went silent runs into it
        let r = crate::gen::retries_of(&scn.call.timeout) as u64;
        w.op_budget = 2_000 + 500 * (r + 1);
        let mut run = run_call(w, &scn.call);
        if let Some(c) = &run.crash {
            out.violate(crash_violation("", c));
        } else if run.result.is_none() {
            out.violate(Violation::new("no-result", "query produced no result", "Ok or Err", "nothing"));
        }
        match &run.result {
            Some(Ok(_)) => out.probe("query_returned_ok"),
            Some(Err(_)) => out.probe("query_returned_err"),
            None => out.probe("query_crashed"),
        }
        out.absorb(&run.world);
        out.distinct_key = out.log_hash;
        if detail {
            out.sample = Some(json!({
                "call": describe_call(&scn.call),
                "script": script,
                "result": describe_result(&run.result, &run.crash),
            }));
            out.schedule = run.world.render_history(120);
        }
        let tape = std::mem::replace(&mut run.world.tape, Tape::replay(Default::default()));
        (out, tape)
    }

    fn rule(&self) -> String {
        "each case draws one public entry point with settings (every protocol query, every hand-written game module, a macro-generated game module, the master-server service, or the definition-driven dispatch over a random GAMES entry; gather toggles, engine variants, retries 0-2, finite timeouts) and a hostile reply script of 0-12 items of up to 64 KiB: a valid reply sequence damaged by truncation / boundary values in length, count, index fields / deleted terminators / bit flips / huge decimal numbers / padding / dropped, duplicated or swapped replies, or a valid header plus random bytes, or random bytes; followed by silence (UDP) or FIN / stall / RST (TCP). Some runs also inject arbitrary io::Errors, short TCP writes and TCP segmentation. Non-trivial = the client received at least one reply; distinct = distinct event-log hash".to_string()
    }

    fn assumptions(&self) -> Vec<String> {
        vec![
            "read timeouts are finite (None is documented as 'block indefinitely')".into(),
            "a panic, an arithmetic overflow (overflow-checks on for every crate), a process abort, more than 20 s CPU in one query, or exceeding the socket-operation budget counts as a violation".into(),
            "Eco replies are injected at the HttpClient seam; ureq itself is not executed".into(),
        ]
    }

    fn required_probes(&self) -> Vec<&'static str> { vec!["query_returned_ok", "query_returned_err", "datagram_truncated_to_buffer", "io_error", "tcp_segmented"] }

    fn components(&self) -> Value { standard_components() }
}

//! C01 — hostile server responses never crash or hang a query.

use super::{crash_violation, describe_call, describe_result, standard_components, SERVER_IP};
use crate::harness::run_call;
use crate::hostile::{self, HostileHttp, HostileServer};
use crate::prop::{CaseOut, Prop, Tier, Violation};
use crate::scenarios::gen_scenario;
use crate::tape::{Tape, CFG};
use crate::world::{NetCfg, World};
use serde_json::{json, Value};

pub struct C01;

/// Build the hostile world for a scenario; returns (world, rendered script).
pub fn hostile_world(mut t: Tape, scn: &crate::scenarios::Scenario, extreme: bool, io_faults: bool) -> (World, Vec<String>) {
    let mut rendered = Vec::new();
    let mut servers = Vec::new();
    for p in &scn.placements {
        let script = hostile::script(&mut t, p.fam, extreme);
        for (i, d) in script.iter().enumerate() {
            if rendered.len() < 16 {
                let hex: String = d.iter().take(40).map(|b| format!("{b:02x}")).collect();
                rendered.push(format!("{:?}@{} reply[{i}] len={} {hex}", p.fam, p.addr, d.len()));
            }
        }
        let srv = HostileServer::new(&mut t, script);
        servers.push((p.addr, p.proto, srv));
    }
    let http_script = if scn.http { Some(hostile::script(&mut t, hostile::Fam::Eco, extreme)) } else { None };
    let io_ppm = if io_faults && t.draw(CFG, 4) == 0 { 1000 * (1 + t.draw(CFG, 100)) } else { 0 };
    let short_write = if io_faults && t.draw(CFG, 4) == 0 { 200_000 } else { 0 };
    let seg = if t.draw(CFG, 2) == 0 { 500_000 } else { 0 };
    let mut w = World::new(t);
    w.net = NetCfg::clean();
    w.net.tcp_segment_ppm = seg;
    w.os.io_error_ppm = io_ppm;
    w.os.short_write_ppm = short_write;
    for (addr, proto, srv) in servers {
        w.add_server(addr, proto, Box::new(srv));
    }
    if let Some(s) = http_script {
        w.http = Some(Box::new(HostileHttp { script: s, next: 0 }));
    }
    (w, rendered)
}

/// Hostile scenario from a recorded conversation: a decode-property scenario (reference-model
/// server with a random state and transport) is run once with the real client, the replies the
/// server sent are recorded, damaged, and served again to the same call by scripted servers.
pub fn recorded_hostile(mut t: Tape, extreme: bool) -> Option<(crate::entry::Call, World, Vec<String>)> {
    use super::{c02, c03, c04, c05, c06, c07};
    use crate::world::{Hist, Proto};
    let (call, world) = match t.draw(CFG, 8) {
        0 | 1 => {
            let scn = c02::scenario(&mut t, 40);
            let srv = scn.server();
            let addr = scn.addr();
            let mut w = World::new(t);
            w.add_server(addr, Proto::Udp, Box::new(srv));
            (scn.call, w)
        }
        2 => {
            let b = c04::build(t);
            (b.call, b.world)
        }
        3 => {
            let b = c05::build(t);
            (b.call, b.world)
        }
        4 => {
            let b = c06::build(t, None);
            (b.call, b.world)
        }
        5 => {
            let subset = 1 + t.draw(CFG, 31) as u32;
            let sel = t.draw(CFG, 12);
            let m = c03::build(t, subset, sel);
            (m.built.call, m.built.world)
        }
        _ => {
            let g = t.draw(CFG, 6); // not Eco: its body does not travel through the socket seam
            let b = c07::build(t, g);
            (b.call, b.world)
        }
    };
    let slots: Vec<(std::net::SocketAddr, Proto)> = world.servers.iter().map(|s| (s.addr, s.proto)).collect();
    let mut rec = run_call(world, &call);
    let mut t = std::mem::replace(&mut rec.world.tape, Tape::replay(Default::default()));
    let mut per_server: Vec<Vec<Vec<u8>>> = vec![Vec::new(); slots.len()];
    for h in &rec.world.hist {
        if let Hist::ServerTx { server, data, .. } = h {
            per_server[*server].push(data.clone());
        }
    }
    if per_server.iter().all(Vec::is_empty) {
        return None;
    }
    let mut rendered = Vec::new();
    let mut w = World::new(Tape::replay(Default::default()));
    let mut servers = Vec::new();
    for (i, (addr, proto)) in slots.iter().enumerate() {
        let script = hostile::damage_recorded(&mut t, std::mem::take(&mut per_server[i]), extreme);
        for (k, d) in script.iter().enumerate().take(6) {
            let hex: String = d.iter().take(40).map(|b| format!("{b:02x}")).collect();
            rendered.push(format!("recorded {proto:?}@{addr} reply[{k}] len={} {hex}", d.len()));
        }
        servers.push((*addr, *proto, HostileServer::new(&mut t, script)));
    }
    let seg = if t.draw(CFG, 2) == 0 { 500_000 } else { 0 };
    w.tape = t;
    w.net.tcp_segment_ppm = seg;
    for (addr, proto, srv) in servers {
        w.add_server(addr, proto, Box::new(srv));
    }
    Some((call, w, rendered))
}

impl Prop for C01 {
    fn id(&self) -> &'static str { "C01" }

    fn level(&self) -> &'static str { "exploration" }

    fn cases(&self, tier: Tier) -> u64 {
        match tier {
            Tier::Quick => 300_000,
            Tier::Thorough => 12_000_000,
        }
    }

    fn run_case(&self, idx: u64, mut t: Tape, detail: bool) -> (CaseOut, Tape) {
        let mut out = CaseOut::default();
        // every third case replays a damaged *recorded* conversation of a reference-model server
        let (call, mut w, script) = if idx % 3 == 2 {
            match recorded_hostile(t, false) {
                Some(x) => {
                    out.probe("recorded_conversation_replayed");
                    x
                }
                None => {
                    out.skipped = Some("recorded conversation had no replies");
                    return (out, Tape::replay(Default::default()));
                }
            }
        } else if idx % 12 == 7 {
            // one case in twelve: the HTTP game against a scripted HTTP peer (the real HTTP client runs)
            let scn = crate::scenarios::eco_http_scenario(&mut t, SERVER_IP, 2);
            let (w, script) = hostile_world(t, &scn, false, true);
            (scn.call, w, script)
        } else {
            let scn = gen_scenario(&mut t, SERVER_IP, 2);
            let (w, script) = hostile_world(t, &scn, false, true);
            (scn.call, w, script)
        };
        let scn_call = call;
        // budget: generous multiple of what any exchange needs; a client that keeps
        // issuing socket operations after the server went silent runs into it
        let r = crate::gen::retries_of(&scn_call.timeout) as u64;
        w.op_budget = 2_000 + 500 * (r + 1);
        let mut run = run_call(w, &scn_call);
        if let Some(c) = &run.crash {
            out.violate(crash_violation("", c));
        } else if run.result.is_none() {
            out.violate(Violation::new("no-result", "query produced no result", "Ok or Err", "nothing"));
        }
        match &run.result {
            Some(Ok(_)) => out.probe("query_returned_ok"),
            Some(Err(_)) => out.probe("query_returned_err"),
            None => out.probe("query_crashed"),
        }
        out.absorb(&run.world);
        out.distinct_key = out.log_hash;
        if detail {
            out.sample = Some(json!({
                "call": describe_call(&scn_call),
                "script": script,
                "result": describe_result(&run.result, &run.crash),
            }));
            out.schedule = run.world.render_history(120);
        }
        let tape = std::mem::replace(&mut run.world.tape, Tape::replay(Default::default()));
        (out, tape)
    }

    fn rule(&self) -> String {
        "each case draws one public entry point with settings (every protocol query, every hand-written game module, a macro-generated game module, the master-server service, or the definition-driven dispatch over a random GAMES entry; gather toggles, engine variants, retries 0-2, finite timeouts) and a hostile reply script of 0-12 items of up to 64 KiB: a valid reply sequence damaged by truncation / boundary values in length, count, index fields / deleted terminators / bit flips / huge decimal numbers / padding / dropped, duplicated or swapped replies, or a valid header plus random bytes, or random bytes; every third case instead records the replies a reference-model server (random state, random transport: split, compressed, multi-packet) really sent in a valid conversation of the same call and serves them again damaged the same way; one case in twelve is the HTTP game against a scripted HTTP peer, the real HTTP client running (valid responses under three framings, lying Content-Length, oversized chunks, gzip bombs, redirects, header lines without colon, contradictory or repeated framing headers, folded lines, hundreds of or very long header lines, other line ends, interim responses); followed by silence (UDP) or FIN / stall / RST (TCP). Some runs also inject arbitrary io::Errors, short TCP writes and TCP segmentation. Non-trivial = the client received at least one reply; distinct = distinct event-log hash".to_string()
    }

    fn assumptions(&self) -> Vec<String> {
        vec![
            "read timeouts are finite (None is documented as 'block indefinitely')".into(),
            "a panic, an arithmetic overflow (overflow-checks on for every crate), a process abort, more than 20 s CPU in one query, or exceeding the socket-operation budget counts as a violation".into(),
            "Eco: half of the cases run the real HTTP client (vendored ureq over the simulated TCP transport) against scripted HTTP/1.1 responses, the other half inject the body at the HttpClient seam".into(),
        ]
    }

    fn required_probes(&self) -> Vec<&'static str> { vec!["query_returned_ok", "query_returned_err", "datagram_truncated_to_buffer", "io_error", "tcp_segmented", "recorded_conversation_replayed"] }

    fn components(&self) -> Value { standard_components() }
}

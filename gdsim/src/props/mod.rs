//! Property checks.

use crate::entry::{Call, ErrInfo, Resp};
use crate::harness::{json_diff, path_class, Crash, RunOut};
use crate::prop::{CaseOut, Prop, Violation};
use serde_json::{json, Value};
use std::net::{IpAddr, Ipv4Addr};

pub mod c01;
pub mod c02;

pub const SERVER_IP: IpAddr = IpAddr::V4(Ipv4Addr::new(192, 0, 2, 10));

pub fn all() -> Vec<Box<dyn Prop>> { vec![Box::new(c01::C01), Box::new(c02::C02)] }

pub fn find(id: &str) -> Option<Box<dyn Prop>> { all().into_iter().find(|p| p.id() == id) }

pub fn describe_call(c: &Call) -> Value {
    json!({
        "entry": format!("{:?}", c.entry),
        "ip": c.ip.to_string(),
        "port": c.port,
        "timeouts": c.timeout.map(|t| format!("read={:?} write={:?} connect={:?} retries={}", t.get_read(), t.get_write(), t.get_connect(), t.get_retries())),
    })
}

pub fn describe_result(r: &Option<Result<Resp, ErrInfo>>, crash: &Option<Crash>) -> String {
    match (r, crash) {
        (_, Some(c)) => c.describe(),
        (Some(Ok(v)), _) => {
            let s = v.to_json().to_string();
            format!("Ok({})", s.chars().take(300).collect::<String>())
        }
        (Some(Err(e)), _) => format!("Err({})", e.text.chars().take(200).collect::<String>()),
        (None, None) => "no result".to_string(),
    }
}

/// Turn a crash into a violation of `prop` (used by every property: a crash
/// is never an acceptable outcome of a query).
pub fn crash_violation(prefix: &str, crash: &Crash) -> Violation {
    Violation::new(
        format!("{prefix}{}", crash.signature()),
        crash.describe(),
        "the query returns Ok or Err",
        crash.describe(),
    )
}

/// Compare an observed response with the model's expectation.
pub fn compare(out: &mut CaseOut, sig_prefix: &str, what: &str, expected: &Value, run: &RunOut) {
    if let Some(c) = &run.crash {
        out.violate(crash_violation(&format!("{sig_prefix}|"), c));
        return;
    }
    match &run.result {
        Some(Ok(r)) => {
            let obs = r.to_json();
            if let Some((path, e, o)) = json_diff(expected, &obs) {
                out.violate(Violation::new(
                    format!("{sig_prefix}|{}", path_class(&path)),
                    format!("{what}: field {path} differs from what the server sent"),
                    e,
                    o,
                ));
            }
        }
        Some(Err(e)) => {
            out.violate(Violation::new(
                format!("{sig_prefix}|error/{:?}", e.kind),
                format!("{what}: the query failed although the server answered every request as specified"),
                expected.to_string().chars().take(200).collect::<String>(),
                format!("Err({})", e.text.chars().take(200).collect::<String>()),
            ));
        }
        None => {}
    }
}

pub fn standard_components() -> Value {
    json!({
        "real": [
            "all of gamedig crates/lib (protocol clients, parsers, Buffer, retry/gather logic, socket.rs incl. apply_timeout, send, receive, read_to_end)",
            "games::query dispatch and the macro-generated game modules"
        ],
        "simulated": [
            "operating-system socket API (std::net inside socket.rs swapped for the simulator backend under --cfg gamedig_verif)",
            "network (latency, loss, duplication, reordering, truncation to the receive buffer, bit flips)",
            "virtual clock (timeouts cost no wall time)",
            "game / master servers (reference models and hostile scripts)"
        ],
        "stubbed": ["ureq HTTP transport (Eco only): served at the HttpClient seam"]
    })
}

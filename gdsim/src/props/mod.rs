//! Property checks.

use crate::entry::{Call, ErrInfo, Resp};
use crate::harness::{json_diff, path_class, Crash, RunOut};
use crate::prop::{CaseOut, Prop, Violation};
use serde_json::{json, Value};
use std::net::{IpAddr, Ipv4Addr};

pub mod c01;
pub mod c02;
pub mod c03;
pub mod c04;
pub mod c05;
pub mod c06;
pub mod c07;
pub mod c08;
pub mod c09;
pub mod c10;
pub mod c11;
pub mod c12;
pub mod c13;
pub mod c14;
pub mod c15;
pub mod c16;
pub mod c18;
pub mod c19;

pub const SERVER_IP: IpAddr = IpAddr::V4(Ipv4Addr::new(192, 0, 2, 10));

pub fn all() -> Vec<Box<dyn Prop>> { vec![
        Box::new(c01::C01),
        Box::new(c02::C02),
        Box::new(c03::C03),
        Box::new(c04::C04),
        Box::new(c05::C05),
        Box::new(c06::C06),
        Box::new(c07::C07),
        Box::new(c08::C08),
        Box::new(c09::C09),
        Box::new(c10::C10),
        Box::new(c11::C11),
        Box::new(c12::C12),
        Box::new(c13::C13),
        Box::new(c14::C14),
        Box::new(c15::C15),
        Box::new(c16::C16),
        Box::new(c18::C18),
        Box::new(c19::C19),
    ] }

pub fn find(id: &str) -> Option<Box<dyn Prop>> { all().into_iter().find(|p| p.id() == id) }

pub fn describe_call(c: &Call) -> Value {
    json!({
        "entry": format!("{:?}", c.entry),
        "ip": c.ip.to_string(),
        "port": c.port,
        "timeouts": c.timeout.map(|t| format!("read={:?} write={:?} connect={:?} retries={}", t.get_read(), t.get_write(), t.get_connect(), t.get_retries())),
    })
}

pub fn describe_result(r: &Option<Result<Resp, ErrInfo>>, crash: &Option<Crash>) -> String {
    match (r, crash) {
        (_, Some(c)) => c.describe(),
        (Some(Ok(v)), _) => {
            let s = v.to_json().to_string();
            format!("Ok({})", s.chars().take(300).collect::<String>())
        }
        (Some(Err(e)), _) => format!("Err({})", e.text.chars().take(200).collect::<String>()),
        (None, None) => "no result".to_string(),
    }
}

/// Turn a crash into a violation of `prop` (used by every property: a crash
/// is never an acceptable outcome of a query).
pub fn crash_violation(prefix: &str, crash: &Crash) -> Violation {
    Violation::new(
        format!("{prefix}{}", crash.signature()),
        crash.describe(),
        "the query returns Ok or Err",
        crash.describe(),
    )
}

/// A scenario of a decode property, ready to run.
pub struct Built {
    pub call: Call,
    pub world: crate::world::World,
    pub expected: Value,
    pub family: String,
    /// canonicalise (expected, observed) before comparing: what the property leaves open
    pub normalise: Option<fn(&mut Value, &mut Value)>,
    pub detail: Value,
}

/// Run a built decode scenario and judge it. Returns the run for further use.
pub fn run_built(out: &mut CaseOut, b: Built, what: &str, detail: bool) -> RunOut {
    let Built { call, world, mut expected, family, normalise, detail: d } = b;
    let run = crate::harness::run_call(world, &call);
    // the GameSpy 3 handshake is read into a 16-byte buffer by design (an 11-character challenge loses
    // only its terminator): only data replies count as truncated
    let truncated = run.world.hist.iter().any(|h| matches!(h, crate::world::Hist::UdpRecv { len, full_len, .. } if len < full_len && *full_len > 64));
    let mut tmp = CaseOut::default();
    compare_norm(&mut tmp, &family, what, &mut expected, &run, normalise);
    for mut v in tmp.violations {
        if family.ends_with("-vars") && v.signature.starts_with(&format!("{family}|/")) {
            v.signature = format!("{family}|/{{}}");
        }
        if truncated {
            v.what = format!("{} (a reply datagram was longer than the client's receive buffer and was truncated)", v.what);
            v.signature = format!("{family}|reply-exceeds-receive-buffer");
        }
        out.violate(v);
    }
    out.absorb(&run.world);
    out.distinct_key = out.log_hash;
    if detail {
        out.sample = Some(json!({"call": describe_call(&call), "scenario": d, "result": describe_result(&run.result, &run.crash)}));
        out.schedule = run.world.render_history(200);
    }
    run
}

pub fn compare_norm(out: &mut CaseOut, sig_prefix: &str, what: &str, expected: &mut Value, run: &RunOut, norm: Option<fn(&mut Value, &mut Value)>) {
    if let (Some(Ok(r)), Some(n)) = (&run.result, norm) {
        let mut obs = r.to_json();
        n(expected, &mut obs);
        if let Some((path, e, o)) = json_diff(expected, &obs) {
            out.violate(Violation::new(
                format!("{sig_prefix}|{}", path_class(&path)),
                format!("{what}: field {path} differs from what the server sent"),
                e,
                o,
            ));
        }
        return;
    }
    compare(out, sig_prefix, what, expected, run);
}

/// Compare an observed response with the model's expectation.
pub fn compare(out: &mut CaseOut, sig_prefix: &str, what: &str, expected: &Value, run: &RunOut) {
    if let Some(c) = &run.crash {
        out.violate(crash_violation(&format!("{sig_prefix}|"), c));
        return;
    }
    match &run.result {
        Some(Ok(r)) => {
            let obs = r.to_json();
            if let Some((path, e, o)) = json_diff(expected, &obs) {
                out.violate(Violation::new(
                    format!("{sig_prefix}|{}", path_class(&path)),
                    format!("{what}: field {path} differs from what the server sent"),
                    e,
                    o,
                ));
            }
        }
        Some(Err(e)) => {
            out.violate(Violation::new(
                format!("{sig_prefix}|error/{:?}", e.kind),
                format!("{what}: the query failed although the server answered every request as specified"),
                expected.to_string().chars().take(200).collect::<String>(),
                format!("Err({})", e.text.chars().take(200).collect::<String>()),
            ));
        }
        None => {}
    }
}

pub fn standard_components() -> Value {
    json!({
        "real": [
            "all of gamedig crates/lib (protocol clients, parsers, Buffer, retry/gather logic, socket.rs incl. apply_timeout, send, receive, read_to_end)",
            "games::query dispatch and the macro-generated game modules",
            "the HTTP client ureq 2.12.1 (request writing, response parsing, framing, gzip, redirects, pool), with its TcpStream and Instant swapped for the simulator's (vendor/ureq, vendor/verif_net)"
        ],
        "simulated": [
            "operating-system socket API (std::net inside socket.rs swapped for the simulator backend under --cfg gamedig_verif)",
            "network (latency, loss, duplication, reordering, truncation to the receive buffer, bit flips)",
            "virtual clock (timeouts cost no wall time; a std::thread::sleep of the code under test would advance it: clock_nanosleep is defined by the simulator's executables)",
            "game / master servers (reference models and hostile scripts)"
        ],
        "stubbed": ["in some Eco cases the whole HTTP request is served at the HttpClient seam instead (request-level stub; the other Eco cases run the real HTTP client)"]
    })
}

//! C09 — requests are the protocol's, go to the right port, and echo challenges.
//! Oracle over the wire history only: the sequence of client transmissions.

use super::{c02, c03, c04, c05, c06, c07, describe_call, describe_result, standard_components, SERVER_IP};
use crate::entry::{Call, Entry, GAMESPY_GAMES, QUAKE_GAMES, VALVE_GAMES};
use crate::harness::run_call;
use crate::models::gamespy::Gs3Server;
use crate::models::minecraft::{read_varint, varint};
use crate::models::valve::{Kind, ValveServer};
use crate::prop::{CaseOut, Prop, Tier, Violation};
use crate::tape::{Tape, CFG};
use crate::world::{Hist, Proto, World};
use gamedig::games::minecraft::RequestSettings;
use gamedig::protocols::types::GatherToggle;
use gamedig::protocols::valve::GatheringSettings;
use serde_json::{json, Value};
use std::net::SocketAddr;

pub struct C09;

/// One expected transmission: destination and a byte pattern.
#[derive(Debug, Clone)]
pub enum Pat {
    Exact(Vec<u8>),
    /// bytes with wildcard positions (None = any byte)
    Mask(Vec<Option<u8>>),
}

impl Pat {
    fn matches(&self, d: &[u8]) -> bool {
        match self {
            Pat::Exact(e) => e == d,
            Pat::Mask(m) => m.len() == d.len() && m.iter().zip(d).all(|(p, b)| p.map_or(true, |x| x == *b)),
        }
    }

    fn show(&self) -> String {
        match self {
            Pat::Exact(e) => e.iter().map(|b| format!("{b:02x}")).collect(),
            Pat::Mask(m) => m.iter().map(|b| b.map_or("??".to_string(), |x| format!("{x:02x}"))).collect(),
        }
    }
}

fn hex(d: &[u8]) -> String { d.iter().take(80).map(|b| format!("{b:02x}")).collect() }

/// Client transmissions grouped per socket: UDP datagrams one by one, TCP
/// writes concatenated per connection (framing must not depend on write sizes).
pub fn transmissions(w: &World) -> Vec<(SocketAddr, Proto, Vec<u8>)> {
    let mut out: Vec<(SocketAddr, Proto, Vec<u8>, u64)> = Vec::new();
    let mut dest: std::collections::HashMap<u64, SocketAddr> = std::collections::HashMap::new();
    for h in &w.hist {
        match h {
            Hist::TcpConnect { sock, to, result, .. } if *result == "connected" => {
                dest.insert(*sock, *to);
                out.push((*to, Proto::Tcp, Vec::new(), *sock));
            }
            Hist::TcpWrite { sock, data, accepted, ok, .. } if *ok => {
                if let Some(e) = out.iter_mut().rev().find(|e| e.1 == Proto::Tcp && e.3 == *sock) {
                    e.2.extend_from_slice(&data[.. *accepted]);
                }
            }
            Hist::UdpSend { to, data, sock, .. } => out.push((*to, Proto::Udp, data.clone(), *sock)),
            _ => {}
        }
    }
    out.into_iter().map(|(a, p, d, _)| (a, p, d)).collect()
}

fn valve_expected(gs: &GatheringSettings, srv: &ValveServer, ffow: bool) -> Vec<Pat> {
    let mut exp = Vec::new();
    if ffow {
        exp.push(Pat::Exact(b"\xff\xff\xff\xff\x46LSQ".to_vec()));
        for (k, c) in &srv.issued {
            if *k == Kind::Ffow {
                let mut d = b"\xff\xff\xff\xff\x46".to_vec();
                d.extend_from_slice(c);
                exp.push(Pat::Exact(d));
            }
        }
        return exp;
    }
    let q = b"\xff\xff\xff\xff\x54Source Engine Query\0".to_vec();
    exp.push(Pat::Exact(q.clone()));
    for (k, c) in &srv.issued {
        if *k == Kind::Info {
            let mut d = q.clone();
            d.extend_from_slice(c);
            exp.push(Pat::Exact(d));
        }
    }
    for (kind, byte, toggle) in [(Kind::Players, 0x55u8, gs.players), (Kind::Rules, 0x56u8, gs.rules)] {
        if toggle == GatherToggle::Skip {
            continue;
        }
        exp.push(Pat::Exact(vec![0xff, 0xff, 0xff, 0xff, byte, 0xff, 0xff, 0xff, 0xff]));
        for (k, c) in &srv.issued {
            if *k == kind {
                let mut d = vec![0xff, 0xff, 0xff, 0xff, byte];
                d.extend_from_slice(c);
                exp.push(Pat::Exact(d));
            }
        }
    }
    exp
}

pub fn java_expected(settings: &Option<RequestSettings>, port: u16) -> Vec<u8> {
    let s = settings.clone().unwrap_or_default();
    let mut body = vec![0u8];
    body.extend(varint(s.protocol_version));
    body.extend(varint(s.hostname.len() as i32));
    body.extend_from_slice(s.hostname.as_bytes());
    body.extend_from_slice(&port.to_be_bytes());
    body.push(1);
    let mut d = varint(body.len() as i32);
    d.extend(body);
    d.extend_from_slice(&[1, 0]);
    d
}

/// Is `d` = expected Java stream, optionally followed by one ping packet (0 or 8 payload bytes)?
pub fn java_matches(exp: &[u8], d: &[u8]) -> bool {
    if !d.starts_with(exp) {
        return false;
    }
    let rest = &d[exp.len() ..];
    if rest.is_empty() {
        return true;
    }
    match read_varint(rest) {
        Some((len, used)) => {
            let body = &rest[used ..];
            body.len() == len as usize && (len == 1 || len == 9) && body[0] == 1
        }
        None => false,
    }
}

const L16_REQ: &[u8] = &[0xfe, 0x01, 0xfa, 0x00, 0x07, 0x00, 0x47, 0x00, 0x61, 0x00, 0x6d, 0x00, 0x65, 0x00, 0x44, 0x00, 0x69, 0x00, 0x67];

fn bedrock_pat() -> Pat {
    let mut m: Vec<Option<u8>> = vec![Some(0x01)];
    m.extend(std::iter::repeat(None).take(8));
    for b in [0x00, 0xff, 0xff, 0x00, 0xfe, 0xfe, 0xfe, 0xfe, 0xfd, 0xfd, 0xfd, 0xfd, 0x12, 0x34, 0x56, 0x78] {
        m.push(Some(b));
    }
    m.extend(std::iter::repeat(None).take(8));
    Pat::Mask(m)
}

/// Golden default ports of the hand-written modules (module documentation / game docs).
pub fn module_default(entry: &Entry) -> Option<u16> {
    Some(match entry {
        Entry::ValveGame(i) => crate::golden::module_port(VALVE_GAMES[*i].module, VALVE_GAMES[*i].port),
        Entry::GsGame(i) => crate::golden::module_port(GAMESPY_GAMES[*i].module, GAMESPY_GAMES[*i].port),
        Entry::QuakeGame(i) => crate::golden::module_port(QUAKE_GAMES[*i].module, QUAKE_GAMES[*i].port),
        Entry::Unreal2Game(i) => crate::golden::module_port(crate::entry::UNREAL2_GAMES[*i].module, crate::entry::UNREAL2_GAMES[*i].port),
        Entry::TheShip { .. } => 27015,
        Entry::Ffow { .. } => 5478,
        Entry::Jc2m { .. } => 7777,
        Entry::Savage2 { .. } => 11235,
        Entry::Mindustry => 6567,
        Entry::Battalion => 7780,
        Entry::Eco { .. } => 3001,
        Entry::McGameJava { .. } | Entry::McGameLegacy | Entry::McGameLegacySpecific(_) => 25565,
        Entry::McGameBedrock => 19132,
        _ => return None,
    })
}

/// Check the transmissions of one finished run. Returns violations.
pub fn check_wire(call: &Call, world: &mut World, ok: bool) -> Vec<Violation> {
    let mut v = Vec::new();
    let fam = call.entry.family();
    let tx = transmissions(world);
    let port = call.port.or_else(|| module_default(&call.entry)).unwrap_or(call.default_port);
    let want_addr = SocketAddr::new(call.ip, port);
    // ---- destination
    for (to, _, d) in &tx {
        let bedrock_default = matches!(call.entry, Entry::McGameAuto) && call.port.is_none() && d.len() == 33;
        let want = if bedrock_default { SocketAddr::new(call.ip, 19132) } else { want_addr };
        if *to != want {
            v.push(Violation::new(
                format!("{fam}|wrong-destination"),
                "a request was addressed to something other than the caller's IP and the given / default port",
                want.to_string(),
                to.to_string(),
            ));
            return v;
        }
    }
    // ---- content
    let expected: Option<Vec<Pat>> = match &call.entry {
        Entry::Valve { gather, .. } => world.server_mut::<ValveServer>(0).map(|s| valve_expected(&gather.unwrap_or_default(), s, false)),
        Entry::ValveGame(i) => {
            let gs = (VALVE_GAMES[*i].gather)();
            world.server_mut::<ValveServer>(0).map(|s| valve_expected(&gs, s, false))
        }
        Entry::TheShip { .. } | Entry::Battalion => world.server_mut::<ValveServer>(0).map(|s| valve_expected(&GatheringSettings::default(), s, false)),
        Entry::Ffow { .. } => world.server_mut::<ValveServer>(0).map(|s| valve_expected(&GatheringSettings::default(), s, true)),
        Entry::Gs { version: 1, .. } => Some(vec![Pat::Exact(b"\\status\\xserverquery".to_vec())]),
        Entry::Gs { version: 2, .. } => {
            Some(vec![Pat::Mask(vec![Some(0xfe), Some(0xfd), Some(0), None, None, None, None, Some(0xff), Some(0xff), Some(0xff)])])
        }
        Entry::GsGame(i) if GAMESPY_GAMES[*i].version == 1 => Some(vec![Pat::Exact(b"\\status\\xserverquery".to_vec())]),
        Entry::GsGame(i) if GAMESPY_GAMES[*i].version == 2 => {
            Some(vec![Pat::Mask(vec![Some(0xfe), Some(0xfd), Some(0), None, None, None, None, Some(0xff), Some(0xff), Some(0xff)])])
        }
        Entry::Gs { .. } | Entry::GsGame(_) | Entry::Jc2m { .. } => {
            let jc = matches!(call.entry, Entry::Jc2m { .. });
            world.server_mut::<Gs3Server>(0).map(|s| {
                let session: Vec<Option<u8>> = tx.first().and_then(|t| t.2.get(3 .. 7)).map_or(vec![None; 4], |x| x.iter().map(|b| Some(*b)).collect());
                let mut hs = vec![Some(0xfe), Some(0xfd), Some(9)];
                hs.extend(session.clone());
                let mut data = vec![Some(0xfe), Some(0xfd), Some(0)];
                data.extend(session);
                let chal = s.st.challenge;
                let tail = [0xff, 0xff, 0xff, if jc { 2 } else { 1 }];
                let mut with: Vec<Option<u8>> = data.clone();
                with.extend(chal.to_be_bytes().iter().map(|b| Some(*b)));
                with.extend(tail.iter().map(|b| Some(*b)));
                let mut without = data;
                without.extend(tail.iter().map(|b| Some(*b)));
                // a server that answers the handshake with "0" uses no challenge: the data request then
                // carries no challenge field at all (reference implementations send it only when non-zero;
                // four extra bytes would shift the request flags such a server reads)
                let second = if chal == 0 { Pat::Mask(without) } else { Pat::Mask(with) };
                vec![Pat::Mask(hs), second]
            })
        }
        Entry::Quake { version } => Some(vec![Pat::Exact(if *version == 3 { b"\xff\xff\xff\xffgetstatus\0".to_vec() } else { b"\xff\xff\xff\xffstatus\0".to_vec() })]),
        Entry::QuakeGame(i) => {
            Some(vec![Pat::Exact(if QUAKE_GAMES[*i].version == 3 { b"\xff\xff\xff\xffgetstatus\0".to_vec() } else { b"\xff\xff\xff\xffstatus\0".to_vec() })])
        }
        Entry::Unreal2 { .. } | Entry::Unreal2Game(_) => {
            let g = match &call.entry {
                Entry::Unreal2 { gather } => *gather,
                _ => gamedig::protocols::unreal2::GatheringSettings::default(),
            };
            let mut e = vec![Pat::Exact(vec![0x79, 0, 0, 0, 0])];
            if g.mutators_and_rules != GatherToggle::Skip {
                e.push(Pat::Exact(vec![0x79, 0, 0, 0, 1]));
            }
            if g.players != GatherToggle::Skip {
                e.push(Pat::Exact(vec![0x79, 0, 0, 0, 2]));
            }
            Some(e)
        }
        Entry::McBedrock | Entry::McGameBedrock => Some(vec![bedrock_pat()]),
        Entry::McLegacySpecific(g) | Entry::McGameLegacySpecific(g) => {
            use gamedig::games::minecraft::LegacyGroup as L;
            Some(vec![Pat::Exact(match g {
                L::V1_6 => L16_REQ.to_vec(),
                L::V1_4 => vec![0xfe, 0x01],
                L::VB1_8 => vec![0xfe],
            })])
        }
        Entry::Mindustry => Some(vec![Pat::Exact(vec![0xfe, 0x01])]),
        Entry::Savage2 { .. } => Some(vec![Pat::Exact(vec![0x01])]),
        Entry::McJava { .. } | Entry::McGameJava { .. } => None, // handled below
        _ => None,
    };
    let generic_java: Option<Option<RequestSettings>> = match &call.entry {
        // (the auto-detecting definition starts with the same Java probe, which the Java host answers)
        Entry::Generic { game_id: "minecraftjava" | "minecraft", extra, .. } => {
            Some(Some(RequestSettings {
                hostname: extra.as_ref().and_then(|e| e.hostname.clone()).unwrap_or_else(|| "gamedig".to_string()),
                protocol_version: extra.as_ref().and_then(|e| e.protocol_version).unwrap_or(-1),
            }))
        }
        _ => None,
    };
    if let Some(settings) = &generic_java {
        let exp = java_expected(settings, port);
        for (_, _, d) in &tx {
            if !java_matches(&exp, d) {
                v.push(Violation::new(
                    format!("{fam}|request-bytes"),
                    "the Java handshake of the definition-driven query does not carry the host name / protocol version given in the extra request settings",
                    hex(&exp),
                    hex(d),
                ));
                break;
            }
        }
        return v;
    }
    if let Entry::McJava { settings } | Entry::McGameJava { settings } = &call.entry {
        let exp = java_expected(settings, port);
        for (_, _, d) in &tx {
            if !java_matches(&exp, d) {
                v.push(Violation::new(
                    format!("{fam}|request-bytes"),
                    "the Java handshake / status request stream is not the one the protocol defines (length, id 0, protocol version VarInt, host string, port big-endian, next state 1, then 01 00, optionally a ping)",
                    hex(&exp),
                    hex(d),
                ));
                break;
            }
        }
        return v;
    }
    if let Entry::Eco { level } = &call.entry {
        // the host name of the extra settings goes into the URL / Host header only, never into the address
        let named = *level == 3;
        let want = if named { format!("http://{}:{}/frontpage", crate::entry::ECO_HOST_NAME, port) } else { format!("http://{}:{}/frontpage", call.ip, port) };
        for h in &world.hist {
            if let Hist::Http { method, url, .. } = h {
                if method != "GET" || *url != want {
                    v.push(Violation::new(format!("{fam}|request-url"), "the HTTP request is not GET /frontpage at the caller's address and port", format!("GET {want}"), format!("{method} {url}")));
                }
            }
        }
        // when the real HTTP client ran: the stream is one HTTP/1.1 GET of /frontpage with the caller's
        // address as Host, the client's identification and negotiation headers, no body, nothing else
        let stream: Vec<u8> = tx.iter().flat_map(|(_, _, d)| d.iter().copied()).collect();
        // the connection goes to the caller's address and port, whatever host name is given (the name is
        // for the request only and is never looked up)
        let stubbed = world.http.is_some();
        let connects: Vec<SocketAddr> = world.hist.iter().filter_map(|h| if let Hist::TcpConnect { to, .. } = h { Some(*to) } else { None }).collect();
        let want_addr = SocketAddr::new(call.ip, port);
        if !stubbed && (connects.is_empty() || connects.iter().any(|a| *a != want_addr)) {
            v.push(Violation::new(
                format!("{fam}|connection-destination"),
                "the HTTP query did not connect to the caller's address and port (and only there)",
                format!("one connection to {want_addr}"),
                format!("connections to {connects:?}"),
            ));
        }
        if !stream.is_empty() {
            world.stats.probe("http_request_stream_checked");
            let text = String::from_utf8_lossy(&stream).to_string();
            let host = match call.ip {
                _ if named => format!("{}:{port}", crate::entry::ECO_HOST_NAME),
                std::net::IpAddr::V6(ip) => format!("[{ip}]:{port}"),
                ip => format!("{ip}:{port}"),
            };
            let mut problem: Option<String> = None;
            match text.split_once("\r\n\r\n") {
                None => problem = Some("no complete request head".into()),
                Some((head, rest)) => {
                    if !rest.is_empty() {
                        problem = Some(format!("{} bytes after the request head", rest.len()));
                    }
                    let mut lines = head.split("\r\n");
                    if lines.next() != Some("GET /frontpage HTTP/1.1") {
                        problem = Some("request line is not 'GET /frontpage HTTP/1.1'".into());
                    }
                    let mut host_seen = 0;
                    for l in lines {
                        match l.split_once(": ") {
                            Some((k, val)) if k.eq_ignore_ascii_case("host") => {
                                host_seen += 1;
                                if val != host {
                                    problem = Some(format!("Host header is {val:?}"));
                                }
                            }
                            Some((k, val)) if k.eq_ignore_ascii_case("user-agent") => {
                                if !val.starts_with("gamedig/") {
                                    problem = Some(format!("User-Agent is {val:?}"));
                                }
                            }
                            Some((k, _)) if k.eq_ignore_ascii_case("accept") || k.eq_ignore_ascii_case("accept-encoding") => {}
                            _ => problem = Some(format!("unexpected header line {l:?}")),
                        }
                    }
                    if host_seen != 1 {
                        problem = Some(format!("{host_seen} Host headers"));
                    }
                }
            }
            if let Some(pb) = problem {
                v.push(Violation::new(
                    format!("{fam}|request-bytes"),
                    format!("the HTTP request stream is not the one GET of /frontpage the game defines: {pb}"),
                    format!("GET /frontpage HTTP/1.1, Host: {host}, User-Agent: gamedig/<version>, Accept, Accept-Encoding, blank line"),
                    text.chars().take(300).collect::<String>(),
                ));
            }
        }
        return v;
    }
    let Some(exp) = expected else { return v };
    let obs: Vec<&Vec<u8>> = tx.iter().map(|t| &t.2).collect();
    // every observed transmission must be the next expected request; if the query succeeded
    // the whole conversation must have taken place
    for (i, d) in obs.iter().enumerate() {
        match exp.get(i) {
            Some(p) if p.matches(d) => {}
            Some(p) => {
                let challenge_related = d.len() >= 9 && matches!(call.entry, Entry::Valve { .. } | Entry::ValveGame(_) | Entry::TheShip { .. } | Entry::Battalion | Entry::Ffow { .. });
                v.push(Violation::new(
                    format!("{fam}|request-bytes{}", if challenge_related { "" } else { "" }),
                    format!("transmission #{i} is not the request the protocol defines at this point of the exchange"),
                    p.show(),
                    hex(d),
                ));
                return v;
            }
            None => {
                v.push(Violation::new(format!("{fam}|extra-request"), format!("the client sent more than the protocol's requests (#{i})"), "nothing further", hex(d)));
                return v;
            }
        }
    }
    if ok && obs.len() < exp.len() {
        v.push(Violation::new(
            format!("{fam}|missing-request"),
            "the query succeeded without sending every request of the exchange",
            format!("{} requests", exp.len()),
            format!("{} requests", obs.len()),
        ));
    }
    v
}

const FAMILIES: u64 = 8;

impl Prop for C09 {
    fn id(&self) -> &'static str { "C09" }

    fn level(&self) -> &'static str { "exploration" }

    fn cases(&self, tier: Tier) -> u64 {
        match tier {
            Tier::Quick => FAMILIES * 625 * 4,
            Tier::Thorough => FAMILIES * 625 * 200,
        }
    }

    fn run_case(&self, idx: u64, mut t: Tape, detail: bool) -> (CaseOut, Tape) {
        let mut out = CaseOut::default();
        let fam = idx % FAMILIES;
        let stratum = (idx / FAMILIES) % 625;
        let (call, world, scn_detail) = match fam {
            0 | 1 => {
                // Valve: the first challenge issued comes from stratum `stratum` of {00, 0A, 41, FF, other}^4
                let mut scn = c02::scenario(&mut t, 40);
                let which = t.draw(CFG, 3) as usize;
                if scn.enc.iter().all(|e| e.challenge_rounds == 0) {
                    scn.enc[which].challenge_rounds = 1;
                }
                let mut srv = scn.server();
                let mut c = [0u8; 4];
                let mut s = stratum;
                for b in &mut c {
                    *b = match s % 5 {
                        0 => 0x00,
                        1 => 0x0a,
                        2 => 0x41,
                        3 => 0xff,
                        _ => {
                            let mut x = t.draw(CFG, 256) as u8;
                            if [0x00, 0x0a, 0x41, 0xff].contains(&x) {
                                x = 0x5a;
                            }
                            x
                        }
                    };
                    s /= 5;
                }
                // (FF FF FF FF is a challenge value like any other: "whatever its value")
                srv.fixed_challenges = vec![c];
                let addr = scn.addr();
                let d = json!({"family": "valve", "first_challenge": hex(&c), "stratum": stratum, "challenge_rounds": scn.enc.iter().map(|e| e.challenge_rounds).collect::<Vec<_>>()});
                let mut w = World::new(t);
                w.add_server(addr, Proto::Udp, Box::new(srv));
                (scn.call, w, d)
            }
            2 => {
                let b = c04::build(t);
                (b.call, b.world, b.detail)
            }
            3 => {
                let b = c05::build(t);
                (b.call, b.world, b.detail)
            }
            4 => {
                let b = c06::build(t, None);
                (b.call, b.world, b.detail)
            }
            5 if stratum % 3 == 2 => {
                // the definition-driven Java query with extra request settings (host name and / or
                // protocol version given through ExtraRequestSettings)
                let extra = crate::scenarios::gen_extra(&mut t);
                // the given port is the given port, 0 and 65535 included
                let port = match t.draw(CFG, 8) {
                    0 ..= 2 => None,
                    3 => Some(0),
                    4 => Some(65_535),
                    _ => Some(1024 + t.draw(CFG, 60_000) as u16),
                };
                let host = crate::models::minecraft::McHost::generate(&mut t, vec![crate::models::minecraft::Variant::Java]);
                // through the Java definition or through the auto-detecting one (its first probe is the Java one)
                let game_id = if t.draw(CFG, 2) == 0 { "minecraftjava" } else { "minecraft" };
                let call = Call { entry: Entry::Generic { game_id, extra: extra.clone(), level: 2 }, ip: SERVER_IP, port, default_port: 25565, timeout: None };
                let d = json!({"family": "minecraft java through the definition-driven query", "extra": format!("{extra:?}")});
                let mut w = World::new(t);
                w.add_server(SocketAddr::new(SERVER_IP, port.unwrap_or(25565)), Proto::Tcp, Box::new(crate::models::minecraft::McTcpServer::new(host)));
                (call, w, d)
            }
            5 => {
                // Minecraft: specific variants the host speaks
                // (two strata in fourteen: the auto-detecting queries against a host that speaks a drawn subset of
                // the variants, so that the later probes of the chain are sent too)
                let sel = match stratum % 14 {
                    12 => 0,
                    13 => 1,
                    k => 2 + k % 10,
                };
                let subset = if sel < 2 { 1 + (stratum / 14) % 31 } else { 31 };
                let m = c03::build(t, subset as u32, sel);
                (m.built.call, m.built.world, m.built.detail)
            }
            _ => {
                let b = c07::build(t, stratum % c07::GAMES7);
                (b.call, b.world, b.detail)
            }
        };
        // one case in four: the server answers from another port than the one it listens on (another socket,
        // a NAT): legal for UDP, and every later transmission must still go to the port the caller gave
        let mut world = world;
        if (idx / (FAMILIES * 625)) % 4 == 3 {
            let listen = call.port.unwrap_or(call.default_port);
            let other = 1024 + ((idx % 60_000) as u16);
            world.net.reply_from_port = if other == listen { other + 1 } else { other };
            out.probe("server_replies_from_another_port");
        }
        let mut run = run_call(world, &call);
        if let Some(c) = &run.crash {
            out.violate(super::crash_violation(&format!("{}|", call.entry.family()), c));
        }
        let ok = matches!(run.result, Some(Ok(_)));
        let truncated = run.world.hist.iter().any(|h| matches!(h, Hist::UdpRecv { len, full_len, .. } if len < full_len));
        for v in check_wire(&call, &mut run.world, ok) {
            // a retry after the client cut a reply short is owned by C04/C05 (receive buffer)
            if truncated && (v.signature.ends_with("|extra-request") || v.signature.ends_with("|missing-request")) {
                out.probe("request_count_not_judged_after_truncation");
                continue;
            }
            out.violate(v);
        }
        if call.port.is_none() {
            out.probe("default_port_used");
        }
        out.absorb(&run.world);
        out.nontrivial = !transmissions(&run.world).is_empty();
        out.distinct_key = out.log_hash;
        if detail {
            out.sample = Some(json!({"call": describe_call(&call), "scenario": scn_detail, "result": describe_result(&run.result, &run.crash),
                "transmissions": transmissions(&run.world).iter().map(|(a, p, d)| format!("{p:?} {a} {}", hex(d))).collect::<Vec<_>>()}));
            out.schedule = run.world.render_history(120);
        }
        let tape = std::mem::replace(&mut run.world.tape, Tape::replay(Default::default()));
        (out, tape)
    }

    fn rule(&self) -> String {
        "case index cycles over 8 workload families (Valve x2, GameSpy 1-3, Quake 1-3, Unreal 2, Minecraft variants, the seven single-game protocols) and over the 625 strata {00, 0A, 41, FF, other}^4 of the first Valve challenge; the tape draws entry point (protocol function or game module), port given / omitted, settings (host names, protocol versions of every i32 class, gather toggles), server state and challenge rounds (GS3 challenges of every i32 class incl. 0, negatives, i32::MIN/MAX, leading '+'); oracle: the client's transmissions are, in order, exactly the protocol's requests (fixed bytes from the specifications, challenge echoed byte for byte), all addressed to the caller's IP and the given or golden default port, nothing else; if the query fails for another reason the transmissions must be a prefix; non-trivial = at least one transmission; distinct = distinct event-log hash".to_string()
    }

    fn assumptions(&self) -> Vec<String> {
        vec![
            "request layouts come from the specifications (A2S, GameSpy, Quake, Unreal 2, RakNet, wiki.vg handshake with big-endian port); legacy Minecraft request literals, FFOW and Savage 2 requests are code-derived golden".into(),
            "default ports are a golden snapshot of the definitions table at the pinned commit plus documented defaults of the hand-written modules".into(),
            "a Java ping packet with 0 or 8 payload bytes after the status request is tolerated; a GameSpy 3 challenge of 0 means 'no challenge': the data request carries no challenge field".into(),
            "master-server requests are checked by C16; the definition-driven entry point by C14".into(),
        ]
    }

    fn required_probes(&self) -> Vec<&'static str> { vec!["challenge_issued", "default_port_used"] }

    fn components(&self) -> Value { standard_components() }
}

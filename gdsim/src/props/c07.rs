//! C07 — single-game protocols and the HTTP/JSON game map every field (fault-free).

use super::{run_built, standard_components, Built, SERVER_IP};
use crate::entry::{Call, Entry};
use crate::gen;
use crate::models::gamespy::{Gs3Server, Gs3State};
use crate::models::misc::{EcoHttp, EcoState, HttpFraming, HttpTcpServer, FfowState, MindustryState, OneShotServer, Savage2State};
use crate::models::valve::{self as vm, ValveServer, ValveState};
use crate::prop::{CaseOut, Prop, Tier};
use crate::tape::{Tape, CFG, DATA};
use crate::world::{Proto, World};
use gamedig::protocols::valve::{Engine, GatheringSettings};
use serde_json::{json, Value};
use std::net::SocketAddr;

pub struct C07;

pub const GAMES7: u64 = 7;

fn ship_expected(st: &ValveState) -> Value {
    let r = vm::expected_response(st, &Engine::new(2400), &GatheringSettings::default());
    let i = r.info;
    let e = i.extra_data.clone();
    let (m, w, d) = st.ship.unwrap_or((0, 0, 0));
    json!({
        "protocol_version": i.protocol_version, "name": i.name, "map": i.map, "game_mode": i.game_mode, "game_version": i.game_version,
        "players": st.player_list.iter().map(|p| json!({"name": p.name, "score": p.score, "duration": f32::from_bits(p.duration_bits), "deaths": p.deaths, "money": p.money})).collect::<Vec<_>>(),
        "players_online": i.players_online, "players_maximum": i.players_maximum, "players_bots": i.players_bots, "server_type": i.server_type,
        "has_password": i.has_password, "vac_secured": i.vac_secured,
        "port": e.as_ref().and_then(|e| e.port), "steam_id": e.as_ref().and_then(|e| e.steam_id), "tv_port": e.as_ref().and_then(|e| e.tv_port),
        "tv_name": e.as_ref().and_then(|e| e.tv_name.clone()), "keywords": e.as_ref().and_then(|e| e.keywords.clone()),
        "rules": r.rules.unwrap_or_default(), "mode": m, "witnesses": w, "duration": d,
    })
}

pub fn build(mut t: Tape, game: u64) -> Built {
    let port = if t.draw(CFG, 2) == 0 { None } else { Some(1024 + t.draw(CFG, 60_000) as u16) };
    let with_timeout = t.draw(CFG, 2) == 0;
    let timeout = if with_timeout { gen::timeouts_long(&mut t, 1) } else { None };
    let addr = |default: u16| SocketAddr::new(SERVER_IP, port.unwrap_or(default));
    let mk = |entry: Entry, default_port: u16, timeout| Call { entry, ip: SERVER_IP, port, default_port, timeout };
    match game {
        0 => {
            let st = FfowState::generate(&mut t);
            let call = mk(Entry::Ffow { with_timeout }, 5478, timeout);
            let mut vs = ValveState::generate(&mut t, false, false, None, 0, 0);
            vs.player_list.clear();
            let mut srv = ValveServer::new(vs);
            srv.ffow_payload = st.payload();
            srv.enc[3].challenge_rounds = t.draw(CFG, 3) as u8;
            let expected = st.expected();
            let detail = json!({"game": "ffow", "challenge_rounds": srv.enc[3].challenge_rounds});
            let mut w = World::new(t);
            w.add_server(addr(5478), Proto::Udp, Box::new(srv));
            Built { call, world: w, expected, family: "ffow".into(), normalise: None, detail }
        }
        1 => {
            let st = Savage2State::generate(&mut t);
            let call = mk(Entry::Savage2 { with_timeout }, 11235, timeout);
            let expected = st.expected();
            let detail = json!({"game": "savage2", "reply_len": st.datagram().len()});
            let mut w = World::new(t);
            w.add_server(addr(11235), Proto::Udp, Box::new(OneShotServer::new(vec![0x01], st.datagram())));
            Built { call, world: w, expected, family: "savage2".into(), normalise: None, detail }
        }
        2 => {
            let mut st = Gs3State::generate(&mut t, 0, true);
            // JC2M answers in a single datagram, which the client reads into a 2048-byte buffer: one case in
            // three goes beyond the MTU (a full server)
            let cap = if t.draw(CFG, 3) == 0 { 2000 } else { 1380 };
            while st.payloads(&mut t, 1)[0].len() > cap {
                if let Some(l) = &mut st.jc2m {
                    if l.pop().is_none() {
                        st.extras.pop();
                    }
                }
            }
            let call = mk(Entry::Jc2m { with_timeout }, 7777, timeout);
            let payloads = st.payloads(&mut t, 1);
            let expected = st.expected_jc2m();
            let detail = json!({"game": "jc2m", "players": st.jc2m.as_ref().map(Vec::len), "numplayers": st.numplayers, "payload_len": payloads[0].len()});
            let mut w = World::new(t);
            w.add_server(addr(7777), Proto::Udp, Box::new(Gs3Server::new(st, payloads)));
            Built { call, world: w, expected, family: "jc2m".into(), normalise: None, detail }
        }
        3 => {
            let st = MindustryState::generate(&mut t);
            let call = mk(Entry::Mindustry, 6567, gen::timeouts_long(&mut t, 1));
            let expected = st.expected();
            let detail = json!({"game": "mindustry", "reply_len": st.datagram().len(), "mode_name": st.mode_name.is_some()});
            let mut w = World::new(t);
            w.add_server(addr(6567), Proto::Udp, Box::new(OneShotServer::new(vec![0xfe, 0x01], st.datagram())));
            Built { call, world: w, expected, family: "mindustry".into(), normalise: None, detail }
        }
        4 => {
            let mut st = ValveState::generate(&mut t, true, false, Some(2400), 60, 60);
            st.fit(false);
            let call = mk(Entry::TheShip { with_timeout }, 27015, timeout);
            let expected = ship_expected(&st);
            let mut srv = ValveServer::new(st.clone());
            for k in 0 .. 3 {
                srv.enc[k] = vm::gen_enc(&mut t, false, true);
            }
            let detail = json!({"game": "theship", "players": st.player_list.len(), "rules": st.rules.len()});
            let mut w = World::new(t);
            w.add_server(addr(27015), Proto::Udp, Box::new(srv));
            Built { call, world: w, expected, family: "theship".into(), normalise: None, detail }
        }
        5 => {
            let mut st = ValveState::generate(&mut t, false, false, Some(489_940), 60, 40);
            // each documented override rule present or not
            let mut overrides = serde_json::Map::new();
            let mut add = |t: &mut Tape, st: &mut ValveState, k: &str, v: String| {
                if t.draw(DATA, 2) == 1 {
                    st.rules.retain(|(kk, _)| kk != k);
                    st.rules.push((k.to_string(), v.clone()));
                    overrides.insert(k.to_string(), json!(v));
                }
            };
            let maxp = gen::u8_(&mut t);
            add(&mut t, &mut st, "bat_max_players_i", maxp.to_string());
            let cnt = gen::u8_(&mut t);
            add(&mut t, &mut st, "bat_player_count_s", cnt.to_string());
            let pw = *t.pick(DATA, &["Y", "N"]);
            add(&mut t, &mut st, "bat_has_password_s", pw.to_string());
            let nm = gen::string(&mut t, &gen::StrOpts::plain(30));
            add(&mut t, &mut st, "bat_name_s", nm);
            let gm = gen::string(&mut t, &gen::StrOpts::plain(20));
            add(&mut t, &mut st, "bat_gamemode_s", gm);
            let mp = gen::string(&mut t, &gen::StrOpts::plain(20));
            add(&mut t, &mut st, "bat_map_s", mp);
            // other rules of the game's own name space are ordinary rules and stay where they are
            for k in ["bat_region_s", "bat_version_s", "bat_", "bat_max_players", "BAT_NAME_S", "bat_name_s2"] {
                if t.draw(DATA, 3) == 0 {
                    let v = gen::string(&mut t, &gen::StrOpts::plain(12));
                    st.rules.retain(|(kk, _)| kk != k);
                    st.rules.push((k.to_string(), v));
                }
            }
            st.fit(false);
            let call = mk(Entry::Battalion, 7780, None);
            // expected: the generic game response with the overrides applied and the override rules removed
            let mut exp = super::c02::expected_game_response(&st, &Engine::new(489_940), &GatheringSettings::default());
            if let Some(v) = overrides.get("bat_max_players_i") {
                exp["players_maximum"] = json!(v.as_str().unwrap().parse::<u8>().unwrap());
            }
            if let Some(v) = overrides.get("bat_player_count_s") {
                exp["players_online"] = json!(v.as_str().unwrap().parse::<u8>().unwrap());
            }
            if let Some(v) = overrides.get("bat_has_password_s") {
                exp["has_password"] = json!(v == "Y");
            }
            if let Some(v) = overrides.get("bat_name_s") {
                exp["name"] = v.clone();
            }
            if let Some(v) = overrides.get("bat_gamemode_s") {
                exp["game"] = v.clone();
            }
            if let Some(r) = exp["rules"].as_object_mut() {
                for k in ["bat_max_players_i", "bat_player_count_s", "bat_has_password_s", "bat_name_s", "bat_gamemode_s", "bat_map_s"] {
                    r.remove(k);
                }
            }
            let mut srv = ValveServer::new(st.clone());
            for k in 0 .. 3 {
                srv.enc[k] = vm::gen_enc(&mut t, false, true);
            }
            let detail = json!({"game": "battalion1944", "overrides": overrides, "players": st.player_list.len(), "rules": st.rules.len()});
            let mut w = World::new(t);
            w.add_server(addr(7780), Proto::Udp, Box::new(srv));
            Built { call, world: w, expected: exp, family: "battalion1944".into(), normalise: None, detail }
        }
        _ => {
            let st = EcoState::generate(&mut t);
            let level = t.draw(CFG, 4) as u8;
            let call = mk(Entry::Eco { level }, 3001, if level == 0 { None } else { gen::timeouts_long(&mut t, 0) });
            let expected = st.expected();
            let detail = json!({"game": "eco", "players": st.info["OnlinePlayersNames"].as_array().map(Vec::len), "body_len": st.body().len()});
            // two cases in three: a real HTTP/1.1 exchange (the HTTP client itself runs, over the simulated
            // TCP transport), with the framing drawn; otherwise the request-level stub
            let transport = t.draw(CFG, 3);
            if transport == 0 {
                let mut w = World::new(t);
                w.http = Some(Box::new(EcoHttp { st, expect_host: if level == 3 { crate::entry::ECO_HOST_NAME.to_string() } else { SERVER_IP.to_string() }, expect_port: port.unwrap_or(3001), requests: Vec::new(), fail: None }));
                return Built { call, world: w, expected, family: "eco".into(), normalise: None, detail };
            }
            let body = st.body();
            let framing = match t.draw(CFG, 3) {
                0 => HttpFraming::ContentLength,
                1 => {
                    let n = t.draw(CFG, 5) as usize;
                    HttpFraming::Chunked((0 .. n).map(|_| 1 + t.draw(DATA, 3000) as usize).collect())
                }
                _ => HttpFraming::UntilClose,
            };
            let mut srv = HttpTcpServer::new(body, framing);
            srv.gzip = t.draw(CFG, 3) == 0;
            srv.close_after = t.draw(CFG, 2) == 0;
            let seg = if t.draw(CFG, 2) == 0 { 500_000 } else { 0 };
            let mut w = World::new(t);
            w.net.tcp_segment_ppm = seg;
            w.add_server(addr(3001), Proto::Tcp, Box::new(srv));
            Built { call, world: w, expected, family: "eco-http".into(), normalise: None, detail }
        }
    }
}

impl Prop for C07 {
    fn id(&self) -> &'static str { "C07" }

    fn level(&self) -> &'static str { "exploration" }

    fn cases(&self, tier: Tier) -> u64 {
        match tier {
            Tier::Quick => GAMES7 * 6_000,
            Tier::Thorough => GAMES7 * 300_000,
        }
    }

    fn run_case(&self, idx: u64, t: Tape, detail: bool) -> (CaseOut, Tape) {
        let mut out = CaseOut::default();
        let b = build(t, idx % GAMES7);
        let eco = b.family.starts_with("eco");
        let mut run = run_built(&mut out, b, "game query", detail);
        if eco && matches!(run.result, Some(Ok(_))) {
            out.nontrivial = true;
        }
        let tape = std::mem::replace(&mut run.world.tape, Tape::replay(Default::default()));
        (out, tape)
    }

    fn rule(&self) -> String {
        "case index cycles over the seven games (Frontlines: Fuel of War, Savage 2, Just Cause 2: Multiplayer, Mindustry, The Ship, Battalion 1944, Eco); the tape draws the reply (full numeric ranges, empty and long strings, optional trailing fields, 0-100 players, each Battalion override rule present or not, reported-vs-listed player counts), the query variant (query / query_with_timeout) and the transport (challenge rounds, split); oracle: field-for-field equality with the model; Eco: two cases in three over a real HTTP/1.1 exchange (Content-Length / chunked with drawn chunk sizes / read-until-close, gzip or not, keep-alive or close, TCP segmentation), bodies up to 9 kB; non-trivial = a reply was received (Eco: the HTTP body was served); distinct = distinct event-log hash".to_string()
    }

    fn assumptions(&self) -> Vec<String> {
        vec![
            "Frontlines, Savage 2, the JC2M player block and the Eco JSON are code-derived golden layouts at the pinned commit (no independent description available offline): they detect any change of field order, width or skip but not a deviation that is already there".into(),
            "Mindustry follows the two Java sources cited in games/mindustry; The Ship and Battalion 1944 use the Valve model with the documented overrides".into(),
            "Eco: two cases in three are a real HTTP/1.1 exchange through the vendored HTTP client over the simulated TCP transport, one in three is served at the HttpClient seam".into(),
        ]
    }

    fn required_probes(&self) -> Vec<&'static str> { vec!["http_client_connects_over_simulated_tcp"] }

    fn components(&self) -> Value { standard_components() }
}

//! C08 — multi-datagram responses do not depend on arrival order.
//! For one response of n = 2..6 fragments: every permutation (n <= 5; 200
//! sampled at n = 6) and every single-fragment duplication at every position.

use super::{crash_violation, describe_call, standard_components, SERVER_IP};
use crate::entry::{Call, Entry, Resp};
use crate::harness::{json_diff, run_call, RunOut};
use crate::models::gamespy::{Gs1Server, Gs1State, Gs3Server, Gs3State};
use crate::models::unreal2::{self as um, Unreal2Server, Unreal2State};
use crate::models::valve::{Kind, KindEnc, Split, ValveServer, ValveState};
use crate::prop::{CaseOut, Prop, Tier, Violation};
use crate::tape::{Tape, CFG, DATA};
use crate::world::{Proto, World};
use gamedig::protocols::types::GatherToggle;
use gamedig::protocols::unreal2::GatheringSettings as U2Gather;
use gamedig::protocols::valve::{Engine, GatheringSettings};
use serde_json::{json, Value};
use std::net::SocketAddr;

pub struct C08;

#[derive(Clone)]
enum Target {
    Valve { st: ValveState, goldsrc: bool, kind: Kind, frags: Vec<Vec<u8>> },
    Gs1 { datagrams: Vec<Vec<u8>> },
    Gs3 { st: Gs3State, payloads: Vec<Vec<u8>> },
    Unreal2 { info: Vec<u8>, rules: Vec<Vec<u8>>, players: Vec<Vec<u8>>, which: usize },
}

impl Target {
    fn proto(&self) -> String {
        match self {
            Target::Valve { .. } => "valve-split".into(),
            Target::Gs1 { .. } => "gamespy1-parts".into(),
            Target::Gs3 { .. } => "gamespy3-splitnum".into(),
            Target::Unreal2 { .. } => "unreal2-list".into(),
        }
    }

    fn detail(&self) -> String {
        match self {
            Target::Valve { goldsrc, kind, .. } => format!("valve {} split, {:?} reply", if *goldsrc { "GoldSrc" } else { "Source" }, kind),
            Target::Gs1 { .. } => "GameSpy 1 parts".into(),
            Target::Gs3 { .. } => "GameSpy 3 splitnum packets".into(),
            Target::Unreal2 { which, .. } => format!("Unreal 2 {} list", if *which == 1 { "rules" } else { "players" }),
        }
    }

    fn n(&self) -> usize {
        match self {
            Target::Valve { frags, .. } => frags.len(),
            Target::Gs1 { datagrams } => datagrams.len(),
            Target::Gs3 { payloads, .. } => payloads.len(),
            Target::Unreal2 { rules, players, which, .. } => if *which == 1 { rules.len() } else { players.len() },
        }
    }

    fn world(&self, addr: SocketAddr, order: Option<Vec<usize>>, dup: Option<(usize, usize)>) -> World {
        let mut w = World::new(Tape::replay(Default::default()));
        match self {
            Target::Valve { st, goldsrc, kind, frags } => {
                let mut s = ValveServer::new(st.clone());
                s.goldsrc_transport = *goldsrc;
                s.fixed_frags[kind.idx()] = Some(frags.clone());
                s.enc[kind.idx()] = KindEnc { challenge_rounds: 0, split: Split::Single, frags: 1, order, dup };
                w.add_server(addr, Proto::Udp, Box::new(s));
            }
            Target::Gs1 { datagrams } => {
                let mut s = Gs1Server::new(datagrams.clone());
                s.order = order;
                s.dup = dup;
                w.add_server(addr, Proto::Udp, Box::new(s));
            }
            Target::Gs3 { st, payloads } => {
                let mut s = Gs3Server::new(st.clone(), payloads.clone());
                s.order = order;
                s.dup = dup;
                w.add_server(addr, Proto::Udp, Box::new(s));
            }
            Target::Unreal2 { info, rules, players, which } => {
                let mut s = Unreal2Server::new(info.clone(), rules.clone(), players.clone());
                s.order[*which] = order;
                s.dup[*which] = dup;
                w.add_server(addr, Proto::Udp, Box::new(s));
            }
        }
        w
    }
}

fn result_json(r: &RunOut, unreal: bool) -> Result<Value, String> {
    match (&r.crash, &r.result) {
        (Some(c), _) => Err(c.signature()),
        (_, Some(Ok(v))) => {
            let mut j = v.to_json();
            if unreal {
                um::canonicalise(&mut j);
            }
            if let Resp::Valve(_) = v {
                // nothing to canonicalise: maps are maps in JSON
            }
            Ok(j)
        }
        (_, Some(Err(e))) => Err(format!("error/{:?}", e.kind)),
        _ => Err("none".into()),
    }
}

fn next_perm(p: &mut [usize]) -> bool {
    // lexicographic next permutation
    let n = p.len();
    if n < 2 {
        return false;
    }
    let mut i = n - 1;
    while i > 0 && p[i - 1] >= p[i] {
        i -= 1;
    }
    if i == 0 {
        return false;
    }
    let mut j = n - 1;
    while p[j] <= p[i - 1] {
        j -= 1;
    }
    p.swap(i - 1, j);
    p[i ..].reverse();
    true
}

impl Prop for C08 {
    fn id(&self) -> &'static str { "C08" }

    fn level(&self) -> &'static str { "fault_enumeration" }

    fn cases(&self, tier: Tier) -> u64 {
        match tier {
            Tier::Quick => 1_500,
            Tier::Thorough => 60_000,
        }
    }

    fn run_case(&self, idx: u64, mut t: Tape, detail: bool) -> (CaseOut, Tape) {
        let mut out = CaseOut::default();
        let n_want = 2 + (idx % 5) as usize; // 2..=6
        let which = (idx / 5) % 6;
        let port = 27000 + t.draw(CFG, 1000) as u16;
        let addr = SocketAddr::new(SERVER_IP, port);
        // ---- build the target response with n fragments
        let (target, call): (Target, Call) = match which {
            0 | 1 => {
                let goldsrc = which == 1;
                let engine = if goldsrc { Engine::GoldSrc(false) } else { Engine::new(440) };
                let mut st = ValveState::generate(&mut t, false, false, if goldsrc { None } else { Some(440) }, 40, 60);
                st.fit(goldsrc);
                let kind = *t.pick(CFG, &[Kind::Rules, Kind::Rules, Kind::Players, Kind::Info]);
                // Source only, one case in three: the answer travels as a bzip2-compressed split response
                // (state and compressed form from the python-built pool)
                let compressed = if !goldsrc && kind != Kind::Info && t.draw(CFG, 3) == 0 { st.adopt_pool_entry(&mut t, kind == Kind::Rules) } else { None };
                let mut srv = ValveServer::new(st.clone());
                srv.goldsrc_transport = goldsrc;
                // the specification gives every answer its own id: keep the target's id apart from the
                // ids the running server assigns to its other split answers (base + 1, + 2, + 3)
                srv.split_id = (st.split_id_base + 0x100 + t.draw(CFG, 0x1000) as u32) & 0x7fff_ffff;
                let payload = srv.payload_for(kind);
                let is_compressed = compressed.is_some();
                if is_compressed {
                    out.probe("compressed_split_target");
                }
                srv.current_kind = kind.idx();
                srv.compressed[kind.idx()] = compressed;
                let split = if goldsrc {
                    Split::GoldSrc
                } else if is_compressed {
                    Split::SourceCompressed
                } else {
                    Split::Source { with_size: true }
                };
                let enc = KindEnc { challenge_rounds: 0, split, frags: n_want, order: None, dup: None };
                let mut d = |b: u64| t.draw(DATA, b);
                let frags = srv.encode(&payload, &enc, &mut d);
                let gs = GatheringSettings { players: GatherToggle::Enforce, rules: GatherToggle::Enforce, check_app_id: false };
                let call = Call { entry: Entry::Valve { engine, gather: Some(gs) }, ip: SERVER_IP, port: Some(port), default_port: 27015, timeout: None };
                (Target::Valve { st, goldsrc, kind, frags }, call)
            }
            2 => {
                // small states: every part stays below the client's 1024-byte receive buffer (C04 owns truncation)
                let st = Gs1State::generate(&mut t, 6);
                let ff = t.draw(CFG, 2) == 1;
                let datagrams = st.encode(&mut t, n_want, ff);
                let call = Call { entry: Entry::Gs { version: 1, vars: false }, ip: SERVER_IP, port: Some(port), default_port: 7778, timeout: None };
                (Target::Gs1 { datagrams }, call)
            }
            3 => {
                let mut st = Gs3State::generate(&mut t, 24, false);
                if st.players.len() < 2 {
                    st.players = (0 .. 6)
                        .map(|i| crate::models::gamespy::Gs3Player { name: format!("p{i}"), score: i, ping: 1, team: 0, deaths: 0, skill: 0 })
                        .collect();
                }
                let payloads = st.payloads(&mut t, n_want);
                let call = Call { entry: Entry::Gs { version: 3, vars: false }, ip: SERVER_IP, port: Some(port), default_port: 7778, timeout: None };
                (Target::Gs3 { st, payloads }, call)
            }
            w => {
                let mut st = Unreal2State::generate(&mut t, 24);
                st.num_players = st.players.len() as u32;
                let list = if w == 4 { 1 } else { 2 };
                let rules = st.rules_datagrams(if list == 1 { n_want } else { 1 }, &mut t);
                let players = st.players_datagrams(if list == 2 { n_want } else { 1 }, &mut t);
                let g = U2Gather { players: GatherToggle::Enforce, mutators_and_rules: GatherToggle::Enforce };
                let call = Call { entry: Entry::Unreal2 { gather: g }, ip: SERVER_IP, port: Some(port), default_port: 7778, timeout: None };
                (Target::Unreal2 { info: st.info_datagram(), rules, players, which: list }, call)
            }
        };
        let n = target.n();
        let proto = target.proto();
        let unreal = matches!(target, Target::Unreal2 { .. });
        if n < 2 {
            out.skipped = Some("state too small to fragment");
            return (out, t);
        }
        // ---- baseline: in-order delivery
        let base = run_call(target.world(addr, None, None), &call);
        out.absorb(&base.world);
        let r0 = match result_json(&base, unreal) {
            Ok(v) => v,
            Err(_) => {
                // in-order decoding is owned by C02 / C04 / C06
                out.skipped = Some("in-order delivery does not decode (owned by C02/C04/C06)");
                out.distinct_key = out.log_hash;
                return (out, t);
            }
        };
        out.probe(match n {
            2 => "fragments_2",
            3 => "fragments_3",
            4 => "fragments_4",
            5 => "fragments_5",
            _ => "fragments_6_or_more",
        });
        // ---- permutations
        let mut perms: Vec<Vec<usize>> = Vec::new();
        if n <= 5 {
            let mut p: Vec<usize> = (0 .. n).collect();
            while next_perm(&mut p) {
                perms.push(p.clone());
            }
        } else {
            for _ in 0 .. 200 {
                let mut p: Vec<usize> = (0 .. n).collect();
                for i in (1 .. n).rev() {
                    let j = t.draw(DATA, i as u64 + 1) as usize;
                    p.swap(i, j);
                }
                if p.iter().enumerate().any(|(i, v)| i != *v) {
                    perms.push(p);
                }
            }
        }
        let mut sched_sample: Vec<String> = Vec::new();
        for p in &perms {
            let r = run_call(target.world(addr, Some(p.clone()), None), &call);
            out.absorb(&r.world);
            out.fault("reordered_delivery");
            let first0 = if p[0] == 0 { "first=0" } else { "first!=0" };
            let res = result_json(&r, unreal);
            let bad = match &res {
                Ok(v) => json_diff(&r0, v).map(|(path, e, o)| ("different-ok".to_string(), format!("{path}: {e}"), o)),
                Err(e) => Some((e.clone(), "same response as in-order delivery".to_string(), e.clone())),
            };
            if let Some((class, e, o)) = bad {
                if let Some(c) = &r.crash {
                    out.violate(crash_violation(&format!("{proto}|reorder|"), c));
                } else {
                    out.violate(Violation::new(
                        format!("{proto}|reorder|{first0}|{class}"),
                        format!("{}: arrival order {p:?} of the {n} fragments gives a result different from in-order arrival", target.detail()),
                        e,
                        o,
                    ));
                }
                if detail && sched_sample.is_empty() {
                    sched_sample = r.world.render_history(60);
                }
            }
        }
        // ---- single duplications at every position
        for frag in 0 .. n {
            for at in 0 ..= n {
                let r = run_call(target.world(addr, None, Some((frag, at))), &call);
                out.absorb(&r.world);
                out.fault("duplicated_fragment");
                if let Some(c) = &r.crash {
                    out.violate(crash_violation(&format!("{proto}|dup|"), c));
                    continue;
                }
                if let Ok(v) = result_json(&r, unreal) {
                    if let Some((path, e, o)) = json_diff(&r0, &v) {
                        out.violate(Violation::new(
                            format!("{proto}|dup|different-ok"),
                            format!("{}: fragment {frag} duplicated at position {at}: a successful response that differs from the in-order one", target.detail()),
                            format!("{path}: {e}"),
                            o,
                        ));
                        if detail && sched_sample.is_empty() {
                            sched_sample = r.world.render_history(60);
                        }
                    }
                }
            }
        }
        // ---- a duplicate inside a reordered delivery (sampled: up to 40 order x duplicate combinations)
        let mut combined = 0;
        if !perms.is_empty() {
            for _ in 0 .. 40usize.min(perms.len() * n * (n + 1)) {
                let p = perms[t.draw(DATA, perms.len() as u64) as usize].clone();
                let frag = t.draw(DATA, n as u64) as usize;
                let at = t.draw(DATA, n as u64 + 1) as usize;
                let r = run_call(target.world(addr, Some(p.clone()), Some((frag, at))), &call);
                out.absorb(&r.world);
                out.fault("duplicated_fragment");
                out.fault("reordered_delivery");
                combined += 1;
                if let Some(c) = &r.crash {
                    out.violate(crash_violation(&format!("{proto}|dup|"), c));
                    continue;
                }
                if let Ok(v) = result_json(&r, unreal) {
                    if let Some((path, e, o)) = json_diff(&r0, &v) {
                        out.violate(Violation::new(
                            format!("{proto}|dup|different-ok"),
                            format!("{}: arrival order {p:?} with fragment {frag} duplicated at position {at}: a successful response that differs from the in-order one", target.detail()),
                            format!("{path}: {e}"),
                            o,
                        ));
                        if detail && sched_sample.is_empty() {
                            sched_sample = r.world.render_history(60);
                        }
                    }
                }
            }
        }
        out.nontrivial = true;
        out.distinct_key = out.log_hash;
        if detail {
            out.sample = Some(json!({"call": describe_call(&call), "protocol": target.detail(), "fragments": n, "permutations_run": perms.len(), "duplications_run": n * (n + 1), "reordered_and_duplicated_run": combined}));
            out.schedule = if sched_sample.is_empty() { base.world.render_history(40) } else { sched_sample };
        }
        (out, t)
    }

    fn rule(&self) -> String {
        "case index fixes the fragment count n = 2..6 and the transport (Valve Source split - one case in three of the rules / players answers bzip2-compressed -, Valve GoldSrc split, GameSpy 1 parts, GameSpy 3 splitnum packets, Unreal 2 rules list, Unreal 2 players list); the tape draws the server state and fragment boundaries; every case runs the in-order baseline, then every permutation of the fragments for n <= 5 (1, 5, 23, 119 non-identity orders) or 200 sampled orders for n = 6, then every single-fragment duplication at every position of the in-order delivery, then up to 40 sampled combinations of an arrival order with a duplicate in it; a case is non-trivial when the in-order baseline decodes; distinct = distinct hash over all event logs of the case".to_string()
    }

    fn assumptions(&self) -> Vec<String> {
        vec![
            "arrival order is realised by the simulated network's delivery order; nothing else differs between the runs of a case (same fragments, same bytes)".into(),
            "cases whose in-order baseline does not decode are skipped and counted (C02/C04/C06 own in-order decoding)".into(),
            "Unreal 2 lists are compared as multisets (the protocol carries no ordering information)".into(),
        ]
    }

    fn required_probes(&self) -> Vec<&'static str> { vec!["fragments_2", "fragments_5", "fragments_6_or_more", "reordered_delivery", "duplicated_fragment"] }

    fn components(&self) -> Value { standard_components() }
}

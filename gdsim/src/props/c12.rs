//! C12 — timeouts bound every blocking step (simulated OS, virtual clock).
//! The server falls silent at every point of an exchange, refuses, black-holes
//! the SYN or stalls mid-stream; UDP and TCP; IPv4 and IPv6; timeout values
//! {1 ns, 1 ms, 4 s default, 1 h}; retries 0..2. Plus the transport layer
//! itself: payload sizes 0..65507 and receive sizes.

use super::{describe_call, describe_result, standard_components};
use crate::entry::{is_timeout_class, Call, Entry};
use crate::harness::{run_call, run_in_world};
use crate::models::gamespy::{Gs1Server, Gs1State, Gs2Server, Gs2State, Gs3Server, Gs3State};
use crate::models::minecraft::{McHost, McTcpServer, McUdpServer, Variant};
use crate::models::misc::{EcoState, FfowState, HttpFraming, HttpTcpServer, MindustryState, OneShotServer, Savage2State};
use crate::models::quake::{QuakeServer, QuakeState};
use crate::models::unreal2::{Unreal2Server, Unreal2State};
use crate::models::valve::{ValveServer, ValveState};
use crate::prop::{CaseOut, Prop, Tier, Violation};
use crate::tape::{Tape, CFG, DATA};
use crate::world::{Cx, Hist, Proto, Server, TcpListen, World, MS, SEC};
use gamedig::games::minecraft::LegacyGroup;
use gamedig::protocols::types::{GatherToggle, TimeoutSettings};
use gamedig::protocols::unreal2::GatheringSettings as U2G;
use gamedig::protocols::valve::{Engine, GatheringSettings};
use gamedig::verif_hook::{Socket, TcpSocketImpl, UdpSocketImpl};
use gamedig::GDErrorKind;
use serde_json::{json, Value};
use std::net::{IpAddr, Ipv4Addr, Ipv6Addr, SocketAddr};
use std::time::Duration;

pub struct C12;

const V4: IpAddr = IpAddr::V4(Ipv4Addr::new(192, 0, 2, 10));
const V6: IpAddr = IpAddr::V6(Ipv6Addr::new(0x2001, 0xdb8, 0, 0, 0, 0, 0, 0x10));
/// an IPv4 host written as an IPv6 address (::ffff:192.0.2.10): an IPv6 destination like any other
const V6_MAPPED: IpAddr = IpAddr::V6(Ipv6Addr::new(0, 0, 0, 0, 0, 0xffff, 0xc000, 0x020a));

/// One IPv6 destination in four is an IPv4-mapped one.
fn v6(t: &mut Tape) -> IpAddr {
    if t.draw(CFG, 4) == 0 {
        V6_MAPPED
    } else {
        V6
    }
}

const FAMILIES: u64 = 16;

struct Fam {
    name: &'static str,
    call: Call,
    tcp: bool,
    /// upper bound on the blocking steps (timeouts) one attempt chain can spend, in units of T
    k: u64,
}

fn timeout_choice(t: &mut Tape) -> (Option<TimeoutSettings>, u64, Option<u64>, u64) {
    // returns settings, read ns, connect ns (None: no connect timeout configured), retries
    let pick = |t: &mut Tape| {
        match t.draw(CFG, 4) {
            0 => Duration::from_nanos(1),
            1 => Duration::from_millis(1),
            2 => Duration::from_secs(4),
            _ => Duration::from_secs(3600),
        }
    };
    if t.draw(CFG, 5) == 0 {
        return (None, 4 * SEC, Some(4 * SEC), 0);
    }
    let r = pick(t);
    // a write timeout of None is legal as well (reads stay bounded)
    let w = if t.draw(CFG, 6) == 0 { None } else { Some(pick(t)) };
    // a connect timeout of None is legal: connect blocks as long as the kernel tries, reads stay bounded
    let c = if t.draw(CFG, 5) == 0 { None } else { Some(pick(t)) };
    let retries = t.draw(CFG, 3);
    // every public way of constructing the settings must give the same timeouts: half of the cases go
    // through deserialisation
    let ts = if t.draw(CFG, 2) == 0 {
        TimeoutSettings::new(Some(r), w, c, retries as usize).unwrap()
    } else {
        let dj = |d: Option<Duration>| d.map_or(Value::Null, |x| json!({"secs": x.as_secs(), "nanos": x.subsec_nanos()}));
        serde_json::from_value::<TimeoutSettings>(json!({"read": dj(Some(r)), "write": dj(w), "connect": dj(c), "retries": retries})).expect("valid settings deserialise")
    };
    (
        Some(ts),
        r.as_nanos() as u64,
        c.map(|c| c.as_nanos() as u64),
        retries,
    )
}

fn build(fam: u64, ip: IpAddr, port: u16, ts: Option<TimeoutSettings>, t: &mut Tape, w: &mut World) -> Fam {
    let addr = SocketAddr::new(ip, port);
    let call = |entry: Entry| Call { entry, ip, port: Some(port), default_port: port, timeout: ts };
    match fam {
        0 => {
            let st = ValveState::generate(t, false, false, Some(440), 5, 5);
            let mut s = ValveServer::new(st);
            for k in 0 .. 3 {
                s.enc[k].challenge_rounds = t.draw(CFG, 2) as u8;
            }
            w.add_server(addr, Proto::Udp, Box::new(s));
            let gs = GatheringSettings { players: GatherToggle::Enforce, rules: GatherToggle::Enforce, check_app_id: true };
            Fam { name: "valve", call: call(Entry::Valve { engine: Engine::new(440), gather: Some(gs) }), tcp: false, k: 3 }
        }
        1 => {
            let st = Gs1State::generate(t, 5);
            let d = st.encode(t, 2, false);
            w.add_server(addr, Proto::Udp, Box::new(Gs1Server::new(d)));
            Fam { name: "gamespy1", call: call(Entry::Gs { version: 1, vars: false }), tcp: false, k: 1 }
        }
        2 => {
            let mut st = Gs2State::generate(t, 5);
            st.fit();
            w.add_server(addr, Proto::Udp, Box::new(Gs2Server { st, outcomes: Vec::new(), attempts: 0, requests: Vec::new() }));
            Fam { name: "gamespy2", call: call(Entry::Gs { version: 2, vars: false }), tcp: false, k: 1 }
        }
        3 => {
            let st = Gs3State::generate(t, 5, false);
            let p = st.payloads(t, 2);
            w.add_server(addr, Proto::Udp, Box::new(Gs3Server::new(st, p)));
            Fam { name: "gamespy3", call: call(Entry::Gs { version: 3, vars: false }), tcp: false, k: 1 }
        }
        4 => {
            let version = 1 + t.draw(CFG, 3) as u8;
            let mut st = QuakeState::generate(t, version, 5, false);
            st.fit();
            w.add_server(addr, Proto::Udp, Box::new(QuakeServer { st, outcomes: Vec::new(), attempts: 0, requests: Vec::new() }));
            Fam { name: "quake", call: call(Entry::Quake { version }), tcp: false, k: 1 }
        }
        5 => {
            let mut st = Unreal2State::generate(t, 5);
            st.num_players = st.players.len() as u32;
            let r = st.rules_datagrams(2, t);
            let p = st.players_datagrams(2, t);
            w.add_server(addr, Proto::Udp, Box::new(Unreal2Server::new(st.info_datagram(), r, p)));
            let g = U2G { players: GatherToggle::Enforce, mutators_and_rules: GatherToggle::Enforce };
            // info, rules (+1 greedy wait), players (+1 greedy wait)
            Fam { name: "unreal2", call: call(Entry::Unreal2 { gather: g }), tcp: false, k: 5 }
        }
        6 => {
            let host = McHost::generate(t, vec![Variant::Java]);
            w.add_server(addr, Proto::Tcp, Box::new(McTcpServer::new(host)));
            Fam { name: "minecraft-java", call: call(Entry::McJava { settings: None }), tcp: true, k: 2 }
        }
        7 => {
            let host = McHost::generate(t, vec![Variant::Bedrock]);
            w.add_server(addr, Proto::Udp, Box::new(McUdpServer { host, pings: Vec::new(), outcomes: Vec::new(), attempts: 0 }));
            Fam { name: "minecraft-bedrock", call: call(Entry::McBedrock), tcp: false, k: 1 }
        }
        8 => {
            let (v, g) = match t.draw(CFG, 3) {
                0 => (Variant::L16, LegacyGroup::V1_6),
                1 => (Variant::L14, LegacyGroup::V1_4),
                _ => (Variant::LB18, LegacyGroup::VB1_8),
            };
            let host = McHost::generate(t, vec![v]);
            w.add_server(addr, Proto::Tcp, Box::new(McTcpServer::new(host)));
            Fam { name: "minecraft-legacy", call: call(Entry::McLegacySpecific(g)), tcp: true, k: 2 }
        }
        9 => {
            let st = MindustryState::generate(t);
            w.add_server(addr, Proto::Udp, Box::new(OneShotServer::new(vec![0xfe, 0x01], st.datagram())));
            Fam { name: "mindustry", call: call(Entry::Mindustry), tcp: false, k: 1 }
        }
        10 => {
            let st = Savage2State::generate(t);
            w.add_server(addr, Proto::Udp, Box::new(OneShotServer::new(vec![0x01], st.datagram())));
            Fam { name: "savage2", call: call(Entry::Savage2 { with_timeout: true }), tcp: false, k: 1 }
        }
        11 => {
            let st = FfowState::generate(t);
            let mut vs = ValveState::generate(t, false, false, None, 0, 0);
            vs.player_list.clear();
            let mut s = ValveServer::new(vs);
            s.ffow_payload = st.payload();
            s.enc[3].challenge_rounds = t.draw(CFG, 2) as u8;
            w.add_server(addr, Proto::Udp, Box::new(s));
            Fam { name: "ffow", call: call(Entry::Ffow { with_timeout: true }), tcp: false, k: 1 }
        }
        12 => {
            let mut st = Gs3State::generate(t, 0, true);
            if let Some(l) = &mut st.jc2m {
                l.truncate(12);
            }
            let p = st.payloads(t, 1);
            w.add_server(addr, Proto::Udp, Box::new(Gs3Server::new(st, p)));
            Fam { name: "jc2m", call: call(Entry::Jc2m { with_timeout: true }), tcp: false, k: 1 }
        }
        13 => {
            let st = ValveState::generate(t, true, false, Some(2400), 4, 4);
            w.add_server(addr, Proto::Udp, Box::new(ValveServer::new(st)));
            Fam { name: "theship", call: call(Entry::TheShip { with_timeout: true }), tcp: false, k: 3 }
        }
        15 => {
            // the auto-detecting Minecraft query against a host that only speaks Bedrock: the Java and
            // legacy probes are refused, the Bedrock probe (UDP) is where the host can fall silent
            let host = McHost::generate(t, vec![Variant::Bedrock]);
            w.add_server(addr, Proto::Udp, Box::new(McUdpServer { host, pings: Vec::new(), outcomes: Vec::new(), attempts: 0 }));
            Fam { name: "minecraft-auto", call: call(Entry::McAuto { settings: None }), tcp: false, k: 5 }
        }
        _ => {
            // the HTTP game: the real HTTP client over the simulated TCP transport
            let st = EcoState::generate(t);
            let framing = match t.draw(CFG, 3) {
                0 => HttpFraming::ContentLength,
                1 => HttpFraming::Chunked(vec![1 + t.draw(CFG, 400) as usize]),
                _ => HttpFraming::UntilClose,
            };
            let mut srv = HttpTcpServer::new(st.body(), framing);
            srv.close_after = t.draw(CFG, 2) == 0;
            w.add_server(addr, Proto::Tcp, Box::new(srv));
            // connect, response head, body
            // (level 3: with a host name in the extra settings; the connection still goes to the address)
            let level = if t.draw(CFG, 2) == 0 { 1 } else { 3 };
            Fam { name: "eco-http", call: call(Entry::Eco { level }), tcp: true, k: 3 }
        }
    }
}

/// Echo-style peer for the transport-layer workload.
struct Peer {
    reply: Vec<u8>,
    got: Vec<Vec<u8>>,
    from: Vec<SocketAddr>,
    close: bool,
    /// TCP: answer once this many bytes have arrived
    expect: usize,
}

impl Server for Peer {
    fn on_udp(&mut self, cx: &mut Cx, from: SocketAddr, data: &[u8]) {
        self.got.push(data.to_vec());
        self.from.push(from);
        let r = self.reply.clone();
        cx.udp_send(from, r);
    }

    fn on_tcp_data(&mut self, cx: &mut Cx, conn: usize, data: &[u8]) {
        if self.got.is_empty() {
            self.got.push(Vec::new());
        }
        self.got[0].extend_from_slice(data);
        if self.close || self.got[0].len() < self.expect {
            return;
        }
        self.close = true;
        let r = self.reply.clone();
        cx.tcp_send(conn, r);
        cx.tcp_fin(conn);
    }

    fn as_any(&mut self) -> &mut dyn std::any::Any { self }
}

fn size_choice(t: &mut Tape) -> usize {
    match t.draw(DATA, 4) {
        0 => *t.pick(DATA, &[0usize, 1, 2, 499, 500, 501, 1023, 1024, 1025, 1399, 1400, 2048, 6144, 6145, 65_506, 65_507]),
        1 => t.draw(DATA, 65_508) as usize,
        _ => t.draw(DATA, 2000) as usize,
    }
}

impl C12 {
    fn transport_case(&self, mut t: Tape, detail: bool) -> (CaseOut, Tape) {
        let mut out = CaseOut::default();
        let tcp = t.draw(CFG, 2) == 1;
        let ip = if t.draw(CFG, 2) == 0 { V4 } else { v6(&mut t) };
        let port = 1024 + t.draw(CFG, 60_000) as u16;
        let addr = SocketAddr::new(ip, port);
        let n_out = if tcp { size_choice(&mut t).max(1) } else { size_choice(&mut t) };
        let n_in = size_choice(&mut t);
        let want = match t.draw(CFG, 3) {
            0 => None,
            _ => Some(size_choice(&mut t)),
        };
        let payload: Vec<u8> = (0 .. n_out).map(|i| (i as u8).wrapping_mul(31).wrapping_add(7)).collect();
        let reply: Vec<u8> = (0 .. n_in).map(|i| (i as u8).wrapping_mul(17).wrapping_add(3)).collect();
        let short = tcp && t.draw(CFG, 2) == 1;
        let seg = tcp && t.draw(CFG, 2) == 1;
        // UDP: one case in four, the reply arrives from another source address than the one that was
        // asked (a server behind address translation): the socket is not connected, the datagram is
        // received all the same
        let foreign = !tcp && t.draw(CFG, 4) == 0;
        let mut w = World::new(t);
        if foreign {
            w.net.foreign_src_ppm = 1_000_000;
        }
        if short {
            w.os.short_write_ppm = 700_000;
        }
        if seg {
            w.net.tcp_segment_ppm = 800_000;
        }
        let sidx = w.add_server(addr, if tcp { Proto::Tcp } else { Proto::Udp }, Box::new(Peer { reply: reply.clone(), got: Vec::new(), from: Vec::new(), close: false, expect: n_out }));
        let p2 = payload.clone();
        let (res, crash, mut w, _) = run_in_world(w, move || -> Result<Vec<u8>, GDErrorKind> {
            if tcp {
                let mut s = TcpSocketImpl::new(&addr, &None).map_err(|e| e.kind)?;
                s.send(&p2).map_err(|e| e.kind)?;
                s.receive(want).map_err(|e| e.kind)
            } else {
                let mut s = UdpSocketImpl::new(&addr, &None).map_err(|e| e.kind)?;
                s.send(&p2).map_err(|e| e.kind)?;
                s.receive(want).map_err(|e| e.kind)
            }
        });
        let fam = format!("transport-{}-{}", if tcp { "tcp" } else { "udp" }, if ip.is_ipv6() { "v6" } else { "v4" });
        if let Some(c) = &crash {
            out.violate(super::crash_violation(&format!("{fam}|"), c));
        }
        let (got, from) = w.server_mut::<Peer>(sidx).map(|p| (p.got.clone(), p.from.clone())).unwrap_or_default();
        match res {
            Some(Ok(data)) => {
                let exp: Vec<u8> = if tcp { reply.clone() } else { reply[.. reply.len().min(want.unwrap_or(usize::MAX))].to_vec() /* no size requested: the whole datagram */ };
                if data != exp {
                    out.violate(Violation::new(
                        format!("{fam}|received-bytes-differ"),
                        format!("receive({want:?}) of a {}-byte {}", reply.len(), if tcp { "stream" } else { "datagram" }),
                        format!("{} bytes: the first min(len, size) bytes unmodified", exp.len()),
                        format!("{} bytes{}", data.len(), if data.len() == exp.len() { " with different content" } else { "" }),
                    ));
                }
                let seen = got.first().cloned().unwrap_or_default();
                if seen != payload {
                    out.violate(Violation::new(
                        format!("{fam}|sent-bytes-differ"),
                        format!("send of {} bytes{}", payload.len(), if short { " (the OS accepted the write only partially)" } else { "" }),
                        format!("{} bytes at the peer, unmodified", payload.len()),
                        format!("{} bytes at the peer", seen.len()),
                    ));
                }
                if !tcp && from.first().map_or(true, |f| f.ip().is_ipv6() != ip.is_ipv6()) {
                    out.violate(Violation::new(format!("{fam}|wrong-source-family"), "datagram source family", "same family as the destination", format!("{from:?}")));
                }
            }
            Some(Err(kind)) => {
                out.violate(Violation::new(
                    format!("{fam}|error/{kind:?}"),
                    format!("send({} bytes) + receive({want:?}) against a peer that answers at {addr}", payload.len()),
                    "the bytes reach the peer and the reply is delivered",
                    format!("Err({kind:?})"),
                ));
            }
            None => {}
        }
        if n_out == 65_507 || n_in == 65_507 {
            out.probe("payload_65507");
        }
        if n_out == 0 {
            out.probe("payload_0");
        }
        if ip.is_ipv6() {
            out.probe("ipv6_destination");
        }
        out.absorb(&w);
        out.nontrivial = true;
        out.distinct_key = out.log_hash;
        if detail {
            out.sample = Some(json!({"workload": "transport layer", "transport": fam, "send_bytes": n_out, "reply_bytes": n_in, "receive_size": want, "short_writes": short, "segmented": seg}));
            out.schedule = w.render_history(40);
        }
        let tape = std::mem::replace(&mut w.tape, Tape::replay(Default::default()));
        (out, tape)
    }
}

impl Prop for C12 {
    fn id(&self) -> &'static str { "C12" }

    fn level(&self) -> &'static str { "exploration" }

    fn cases(&self, tier: Tier) -> u64 {
        match tier {
            Tier::Quick => 60_000,
            Tier::Thorough => 3_000_000,
        }
    }

    fn run_case(&self, idx: u64, mut t: Tape, detail: bool) -> (CaseOut, Tape) {
        if idx % 4 == 3 {
            return self.transport_case(t, detail);
        }
        let mut out = CaseOut::default();
        let fam_sel = (idx / 4) % FAMILIES;
        let ip = if t.draw(CFG, 3) == 0 { v6(&mut t) } else { V4 };
        let port = 1024 + t.draw(CFG, 60_000) as u16;
        let (ts, read_ns, connect_ns, retries) = timeout_choice(&mut t);
        let mut w = World::new(Tape::replay(Default::default()));
        let fam = build(fam_sel, ip, port, ts, &mut t, &mut w);
        // ---- the fault: where does the server fall silent?
        let fault = if fam.tcp { t.draw(CFG, 6) } else { t.draw(CFG, 2) };
        let mut fault_name = "none";
        let addr = SocketAddr::new(ip, port);
        if fam.tcp {
            match fault {
                0 => {
                    w.servers[0].listen = TcpListen::Refuse;
                    w.servers[0].handler = None;
                    fault_name = "refused";
                }
                1 => {
                    w.servers[0].listen = TcpListen::BlackHole;
                    w.servers[0].handler = None;
                    fault_name = "syn-blackholed";
                }
                2 => {
                    w.net.tcp_byte_budget = Some(0);
                    fault_name = "accepts-then-silent";
                }
                3 => {
                    // HTTP: also in the middle of the headers or of the body
                    let span = if fam.name == "eco-http" { 1500 } else { 40 };
                    w.net.tcp_byte_budget = Some(1 + t.draw(CFG, span));
                    fault_name = "stalls-mid-stream";
                }
                4 => {
                    w.net.drop_fin = true;
                    fault_name = "never-closes";
                }
                _ => {}
            }
        } else if fault == 0 {
            let k = t.draw(CFG, 6);
            w.net.udp_reply_budget = Some(k);
            fault_name = if k == 0 { "silent-from-the-start" } else { "silent-after-k-replies" };
        }
        let _ = addr;
        w.tape = t;
        let mut run = run_call(w, &fam.call);
        let name = fam.name;
        // ---- oracle 1: every socket got the configured timeouts, every blocking call was bounded by them
        let mut problems: Vec<(String, String, String, String)> = Vec::new();
        let write_cfg: Option<u64> = fam.call.timeout.map_or(Some(4 * SEC), |t| t.get_write().map(|d| d.as_nanos() as u64));
        // without a connect timeout the kernel gives up after about 127 s of SYN retries
        let connect_bound = connect_ns.unwrap_or(127 * SEC);
        let mut timeout_waits = 0u64;
        let mut sockets_seen = 0;
        let mut read_set: std::collections::HashMap<u64, Option<u64>> = std::collections::HashMap::new();
        let mut write_set: std::collections::HashMap<u64, Option<u64>> = std::collections::HashMap::new();
        for h in &run.world.hist {
            match h {
                Hist::UdpBind { sock, .. } => {
                    sockets_seen += 1;
                    read_set.insert(*sock, None);
                    write_set.insert(*sock, None);
                }
                Hist::TcpConnect { sock, timeout, result, waited, .. } => {
                    sockets_seen += 1;
                    if *result == "connected" {
                        read_set.insert(*sock, None);
                        write_set.insert(*sock, None);
                    }
                    // (with no connect timeout configured the HTTP client applies its own default, which is a bound too)
                    if *timeout != connect_ns && !(name == "eco-http" && connect_ns.is_none()) {
                        problems.push((format!("{name}|connect-timeout-not-applied"), "TCP connect was not given the configured connect timeout".into(), format!("{connect_ns:?} ns"), format!("{timeout:?}")));
                    }
                    if *waited > connect_bound.saturating_add(10 * MS) {
                        problems.push((format!("{name}|connect-outlasted-timeout"), "connect blocked longer than the connect timeout".into(), format!("<= {connect_bound} ns"), format!("{waited} ns")));
                    }
                }
                Hist::SetTimeout { sock, read, value, ok, .. } if *ok => {
                    if *read {
                        read_set.insert(*sock, *value);
                    } else {
                        write_set.insert(*sock, *value);
                    }
                }
                Hist::RecvTimeout { sock, waited, timeout, .. } => {
                    timeout_waits += 1;
                    if *timeout != Some(read_ns) || read_set.get(sock).copied().flatten() != Some(read_ns) {
                        problems.push((format!("{name}|read-timeout-not-applied"), "a blocking receive ran without the configured read timeout".into(), format!("{read_ns} ns"), format!("{timeout:?}")));
                    }
                    if *waited > read_ns {
                        problems.push((format!("{name}|receive-outlasted-timeout"), "a receive blocked longer than the read timeout".into(), format!("<= {read_ns} ns"), format!("{waited} ns")));
                    }
                }
                Hist::UdpRecv { sock, waited, .. } | Hist::TcpRead { sock, waited, .. } => {
                    if read_set.get(sock).copied().flatten() != Some(read_ns) {
                        problems.push((format!("{name}|read-timeout-not-applied"), "a receive was issued on a socket without the configured read timeout".into(), format!("{read_ns} ns"), format!("{:?}", read_set.get(sock))));
                    }
                    if *waited > read_ns {
                        problems.push((format!("{name}|receive-outlasted-timeout"), "a receive blocked longer than the read timeout".into(), format!("<= {read_ns} ns"), format!("{waited} ns")));
                    }
                }
                Hist::UdpSend { sock, .. } | Hist::TcpWrite { sock, .. } => {
                    if write_set.get(sock).copied().flatten() != write_cfg {
                        problems.push((format!("{name}|write-timeout-not-applied"), "a send was issued on a socket without the configured write timeout".into(), format!("{write_cfg:?} ns"), format!("{:?}", write_set.get(sock))));
                    }
                }
                _ => {}
            }
        }
        if run.world.blocked_forever {
            problems.push((format!("{name}|blocked-without-timeout"), "a receive blocked with no timeout and nothing pending".into(), "bounded wait".into(), "blocks forever".into()));
        }
        // ---- oracle 2: total duration bounded by attempts x timeout
        let t_max = read_ns.max(connect_bound);
        let bound = (retries + 2).saturating_mul(fam.k).saturating_mul(t_max).saturating_add(SEC);
        if run.world.now > bound {
            problems.push((
                format!("{name}|total-duration"),
                format!("query took longer than (retries+2) x {} blocking steps x timeout", fam.k),
                format!("<= {bound} ns"),
                format!("{} ns with {timeout_waits} timed-out waits", run.world.now),
            ));
        }
        // ---- oracle 3: error class
        let truncated = run.world.hist.iter().any(|h| matches!(h, Hist::UdpRecv { len, full_len, .. } if len < full_len));
        let generous = read_ns >= 4 * SEC && connect_bound >= 4 * SEC;
        match (&run.result, &run.crash) {
            (_, Some(c)) => problems.push((format!("{name}|{}", c.signature()), c.describe(), "Ok or Err".into(), c.describe())),
            // what happens after the client cut a reply short is owned by C04/C05
            (Some(Err(_)), _) if truncated => {}
            (Some(Err(e)), _) if fault_name == "none" && generous => {
                problems.push((
                    format!("{name}|fails-without-fault/{:?}", e.kind),
                    "the server answered everything in time and the query still failed".into(),
                    "Ok".into(),
                    e.text.clone(),
                ));
            }
            (Some(Err(e)), _) => {
                let allowed = match fault_name {
                    "refused" | "syn-blackholed" => e.kind == GDErrorKind::SocketConnect,
                    // silence of any kind: a receive-class error (with 1 ns / 1 ms timeouts also without any fault);
                    // the auto-detecting query reports "no variant answered"
                    _ => is_timeout_class(&e.kind) || (name == "minecraft-auto" && e.kind == GDErrorKind::AutoQuery),
                };
                if !allowed {
                    problems.push((
                        format!("{name}|error-class/{fault_name}/{:?}", e.kind),
                        format!("server fault '{fault_name}': the error is not of the matching class"),
                        if fault_name == "refused" || fault_name == "syn-blackholed" { "SocketConnect".into() } else { "PacketReceive".into() },
                        e.text.clone(),
                    ));
                }
            }
            (Some(Ok(_)), _) => {
                if matches!(fault_name, "refused" | "syn-blackholed" | "silent-from-the-start" | "accepts-then-silent") {
                    problems.push((format!("{name}|ok-without-any-reply/{fault_name}"), "the query succeeded although the server never answered".into(), "Err".into(), "Ok".into()));
                }
            }
            _ => {}
        }
        // ---- oracle 4: bytes handed to the transport reach the peer unmodified, at the caller's address
        let sent: Vec<&Vec<u8>> = run.world.hist.iter().filter_map(|h| if let Hist::UdpSend { data, ok: true, .. } = h { Some(data) } else { None }).collect();
        let rx: Vec<&Vec<u8>> = run.world.hist.iter().filter_map(|h| if let Hist::ServerRx { data, proto: Proto::Udp, .. } = h { Some(data) } else { None }).collect();
        if !fam.tcp && rx.iter().zip(sent.iter()).any(|(a, b)| a != b) {
            problems.push((format!("{name}|request-bytes-modified"), "bytes seen by the server differ from the bytes handed to send".into(), "equal".into(), "different".into()));
        }
        for (sig, what, e, o) in problems {
            out.violate(Violation::new(sig, format!("[{name}, {fault_name}, {}] {what}", if ip.is_ipv6() { "IPv6" } else { "IPv4" }), e, o));
        }
        out.probe(match fault_name {
            "refused" => "fault_refused",
            "syn-blackholed" => "fault_syn_blackholed",
            "accepts-then-silent" => "fault_accepts_then_silent",
            "stalls-mid-stream" => "fault_stalls_mid_stream",
            "never-closes" => "fault_never_closes",
            "silent-from-the-start" => "fault_silent_from_start",
            "silent-after-k-replies" => "fault_silent_after_k",
            _ => "no_fault",
        });
        if ip.is_ipv6() {
            out.probe("ipv6_destination");
        }
        if read_ns == 1 {
            out.probe("timeout_1ns");
        }
        if read_ns == 3600 * SEC {
            out.probe("timeout_1h");
        }
        if connect_ns.is_none() {
            out.probe("no_connect_timeout");
        }
        let _ = sockets_seen;
        out.absorb(&run.world);
        out.nontrivial = true;
        out.distinct_key = out.log_hash;
        if detail {
            out.sample = Some(json!({"call": describe_call(&fam.call), "server_fault": fault_name, "ip_family": if ip.is_ipv6() { "v6" } else { "v4" }, "read_timeout_ns": read_ns, "connect_timeout_ns": connect_ns, "retries": retries,
                "virtual_duration_ns": run.world.now, "timed_out_waits": timeout_waits, "result": describe_result(&run.result, &run.crash)}));
            out.schedule = run.world.render_history(120);
        }
        let tape = std::mem::replace(&mut run.world.tape, Tape::replay(Default::default()));
        (out, tape)
    }

    fn rule(&self) -> String {
        "three of four cases: one of 16 entry-point families (among them the auto-detecting Minecraft query and the HTTP game through the real HTTP client) against a valid model server that falls silent at a drawn point of the exchange (UDP: after k = 0..5 datagrams; TCP: refused, SYN black-holed, accepts then silent, stalls after 1-40 bytes (HTTP: 1-1500, inside status line, headers or body), never closes), IPv4 or IPv6 destination, (read, write, connect) timeouts from {1 ns, 1 ms, 4 s, 1 h} (write and connect also None) or the defaults, retries 0..2; oracle over the history: every socket got the configured read / write timeouts and connect its connect timeout, no blocking call outlasts its timeout in virtual time, total virtual duration <= (retries+2) x steps x timeout + 1 s, error class (silence -> receive class, refusal / black hole -> SocketConnect), request bytes unmodified at the server. Every fourth case drives the re-exported transport layer directly: payload and reply sizes 0..65507 (boundary values and random), receive sizes, UDP / TCP, IPv4 / IPv6, short writes and segmentation: bytes at the peer == bytes sent, received == first min(len, size) bytes. Distinct = distinct event-log hash".to_string()
    }

    fn assumptions(&self) -> Vec<String> {
        vec![
            "that std and the kernel honour SO_RCVTIMEO / connect timeouts is trusted: the simulated OS implements exactly that contract (timeout -> WouldBlock at now+T, zero duration -> InvalidInput, v4 socket cannot send to a v6 address, write may be short)".into(),
            "the HTTP game runs through the vendored HTTP client (ureq 2.12.1 with its TcpStream and Instant swapped for the simulator's); with no connect timeout configured its own 30 s default is accepted as a bound".into(),
            "sections are set to Enforce so that a silent section is visible in the result".into(),
        ]
    }

    fn required_probes(&self) -> Vec<&'static str> {
        vec![
            "fault_refused",
            "http_client_connects_over_simulated_tcp",
            "fault_syn_blackholed",
            "fault_accepts_then_silent",
            "fault_stalls_mid_stream",
            "fault_never_closes",
            "fault_silent_from_start",
            "fault_silent_after_k",
            "ipv6_destination",
            "timeout_1ns",
            "timeout_1h",
            "no_connect_timeout",
            "payload_65507",
            "payload_0",
            "short_write",
        ]
    }

    fn components(&self) -> Value { standard_components() }
}

//! C19 — the CLI prints a well-formed, faithful document or a clean error.
//! The real command-line tool (shadow binary `clisim`: crates/cli/src/main.rs
//! included verbatim) runs as a separate process per invocation on the
//! simulator backend; the same query is run in-harness on the same world.

use super::c14::{blueprint, world_from, HostPorts};
use super::{standard_components, SERVER_IP};
use crate::entry::{Call, Entry, Resp};
use crate::harness::{json_diff, run_call};
use crate::prop::{CaseOut, Prop, Tier, Violation};
use crate::scenarios::sorted_game_ids;
use crate::tape::{Tape, TapeData, CFG};
use crate::world::World;
use crate::xmlcheck;
use base64::Engine as _;
use gamedig::protocols::types::{ProprietaryProtocol, Protocol};
use serde::{Deserialize, Serialize};
use serde_json::{json, Value};
use std::io::Write;
use std::process::{Command, Stdio};

pub struct C19;

const FORMATS: [&str; 6] = ["debug", "json-pretty", "json", "xml", "bson-hex", "bson-base64"];
const MODES: [&str; 2] = ["generic", "protocol-specific"];
const FAMILY_GAMES: [&str; 19] = [
    "teamfortress2", "counterstrike", "theship", "battlefield1942", "hce", "crysiswars", "quake1", "quake2", "q3a", "killingfloor", "minecraftjava",
    "minecraftbedrock", "minecraftlegacy16", "minecraft", "ffow", "jc2m", "savage2", "mindustry", "eco",
];

#[derive(Serialize, Deserialize)]
struct ScenarioFile {
    idx: u64,
    tape: TapeData,
}

pub struct CliScn {
    pub game_id: &'static str,
    pub format: &'static str,
    pub mode: &'static str,
    pub port: Option<u16>,
    pub invalid: Option<&'static str>,
    pub tame: bool,
    pub args: Vec<String>,
    pub world: World,
    /// the extra request settings the invocation's flags (and a named host) amount to
    pub extra: Option<gamedig::protocols::types::ExtraRequestSettings>,
    /// the timeout settings the invocation's flags amount to (read, write, connect seconds; retries)
    pub timeouts: Option<(u64, u64, u64, usize)>,
}

/// Derive the scenario of case `idx` from the tape (used identically by the
/// harness and by the clisim child, which replays the same tape).
pub fn cli_scenario(idx: u64, t: &mut Tape) -> CliScn {
    let ids = sorted_game_ids();
    let invalid_kind = if idx % 5 == 4 { Some((idx / 5) % 9) } else { None };
    let game_id: &'static str = if t.draw(CFG, 4) == 0 { ids[t.draw(CFG, ids.len() as u64) as usize] } else { FAMILY_GAMES[(idx / 24 % 19) as usize] };
    let format = FORMATS[(idx / 2 % 6) as usize];
    let mode = MODES[(idx / 12 % 2) as usize];
    let game = gamedig::GAMES.get(game_id).unwrap();
    let port_given = t.draw(CFG, 2) == 1;
    let explicit = 1024 + t.draw(CFG, 60_000) as u16;
    let port = port_given.then_some(explicit);
    let golden = crate::golden::port(game_id).unwrap_or(game.default_port);
    let mc_auto = matches!(game.protocol, Protocol::PROPRIETARY(ProprietaryProtocol::Minecraft(None)));
    // the generic query probes Bedrock on the queried port: the host answers Bedrock there
    let ports = HostPorts { main: port.unwrap_or(golden), bedrock: port.unwrap_or(if mc_auto { golden } else { golden }) };
    // even cases: "tame" strings (markup characters and non-ASCII, but no control characters, and
    // identifier-like map keys): the XML document must be well-formed without exception
    let tame = idx % 2 == 0;
    crate::gen::set_nasty_strings(!tame);
    crate::gen::set_tame_keys(tame);
    let behaviour = match invalid_kind {
        Some(2) => 4, // silent / refusing server
        _ => 0,
    };
    let bp = blueprint(game, behaviour, t);
    crate::gen::set_nasty_strings(false);
    crate::gen::set_tame_keys(false);
    let rt_seed = t.full_u64(CFG);
    let mut world = world_from(&bp, &ports, rt_seed);
    let mut args: Vec<String> = vec!["query".into(), "--game".into(), game_id.into(), "--ip".into(), SERVER_IP.to_string()];
    // one valid invocation in eight names the host instead of giving its address: "localhost", resolved by
    // the tool through the operating system's resolver; whatever it resolves to is routed to the simulated host
    if invalid_kind.is_none() && game_id != "eco" && t.draw(CFG, 8) == 0 {
        use std::net::ToSocketAddrs;
        if let Ok(addrs) = ("localhost", 0).to_socket_addrs() {
            let ips: Vec<std::net::IpAddr> = addrs.map(|a| a.ip()).collect();
            if !ips.is_empty() {
                for ip in ips {
                    world.ip_alias.push((ip, SERVER_IP));
                }
                args[4] = "localhost".into();
            }
        }
    }
    if let Some(p) = port {
        args.extend(["--port".to_string(), p.to_string()]);
    }
    // query options: one valid invocation in three carries some of them
    let mut extra: Option<gamedig::protocols::types::ExtraRequestSettings> = None;
    if invalid_kind.is_none() && game_id != "eco" && t.draw(CFG, 3) == 0 {
        use gamedig::protocols::types::{ExtraRequestSettings, GatherToggle};
        let mut e = ExtraRequestSettings::default();
        let tog = |t: &mut Tape| *t.pick(CFG, &[("skip", GatherToggle::Skip), ("try", GatherToggle::Try), ("enforce", GatherToggle::Enforce)]);
        if t.draw(CFG, 2) == 0 {
            let (n, v) = tog(t);
            e.gather_players = Some(v);
            args.extend(["--gather-players".to_string(), n.to_string()]);
        }
        if t.draw(CFG, 2) == 0 {
            let (n, v) = tog(t);
            e.gather_rules = Some(v);
            args.extend(["--gather-rules".to_string(), n.to_string()]);
        }
        if t.draw(CFG, 3) == 0 {
            // (the simulated host runs the very game that is asked for: the check passes either way)
            let v = t.draw(CFG, 2) == 0;
            e.check_app_id = Some(v);
            args.extend(["--check-app-id".to_string(), v.to_string()]);
        }
        if t.draw(CFG, 3) == 0 {
            let v = *t.pick(CFG, &[-1i32, 0, 47, 760, i32::MAX]);
            e.protocol_version = Some(v);
            args.push(format!("--protocol-version={v}"));
        }
        if t.draw(CFG, 3) == 0 {
            let v = *t.pick(CFG, &["play.example.org", "x", "mc.é.example"]);
            e.hostname = Some(v.to_string());
            args.extend(["--hostname".to_string(), v.to_string()]);
        }
        if args.iter().any(|a| a.starts_with("--gather") || a.starts_with("--check") || a.starts_with("--protocol") || a == "--hostname") {
            extra = Some(e);
        }
    }
    // a host given by name is passed on as the host name unless one was given explicitly
    if args[4] == "localhost" {
        let mut e = extra.take().unwrap_or_default();
        if e.hostname.is_none() {
            e.hostname = Some("localhost".to_string());
        }
        extra = Some(e);
    }
    // timeout flags: one valid invocation in four carries all of them, up to the largest values the
    // flags accept (the host answers at once: they change nothing but must not break anything)
    let mut timeouts: Option<(u64, u64, u64, usize)> = None;
    if invalid_kind.is_none() && t.draw(CFG, 4) == 0 {
        let secs = |t: &mut Tape| *t.pick(CFG, &[1u64, 4, 3600, u64::MAX]);
        let (r, w, c) = (secs(t), secs(t), secs(t));
        // (a small retry count: the auto-detecting queries probe variants the host does not answer, and
        // each of those probes is retried as often as asked)
        let n = *t.pick(CFG, &[0usize, 1, 2, 5]);
        args.extend(["--read-timeout".to_string(), r.to_string(), "--write-timeout".to_string(), w.to_string(), "--connect-timeout".to_string(), c.to_string(), "--retries".to_string(), n.to_string()]);
        timeouts = Some((r, w, c, n));
    }
    args.extend(["--format".to_string(), format.to_string(), "--output-mode".to_string(), mode.to_string()]);
    let invalid: Option<&'static str> = match invalid_kind {
        None => None,
        Some(0) => {
            // unknown ids of every shape: ordinary, empty, one byte, multi-byte, wrong case, near miss
            args[2] = (*t.pick(CFG, &["nosuchgame", "", "x", "é", "日本", "aé", "TEAMFORTRESS2", "teamfortress", "minecraft ", "-", "🎮"])).to_string();
            // or the id of the very game the simulated host runs, minus its last character (the host would
            // answer if the tool went on with a guess)
            let near: String = game_id.chars().take(game_id.chars().count().saturating_sub(1)).collect();
            if t.draw(CFG, 3) == 0 && !near.is_empty() && gamedig::GAMES.get(near.as_str()).is_none() {
                args[2] = near;
            }
            Some("unknown-game")
        }
        Some(1) => {
            args[4] = "no-such-host.invalid".into();
            Some("unresolvable-host")
        }
        Some(2) => Some("unreachable-server"),
        Some(3) => {
            args.extend(["--read-timeout".to_string(), "0".to_string()]);
            Some("zero-timeout-flag")
        }
        Some(4) => {
            let flag = *t.pick(CFG, &["--connect-timeout", "--read-timeout", "--write-timeout"]);
            let v = *t.pick(CFG, &["abc", "1m", "2h", "1.5", "1e3", "-1", "", " 1", "0x10", "400000000000000000m", "99999999999999999999", "18446744073709551616", "１"]);
            args.push(format!("{flag}={v}"));
            Some("non-numeric-timeout-flag")
        }
        Some(5) => {
            let i = args.iter().position(|a| a == "--format").unwrap();
            args[i + 1] = "yaml".into();
            Some("bad-format-name")
        }
        Some(6) => {
            args.extend(["--write-timeout".to_string(), "0".to_string()]);
            Some("zero-timeout-flag")
        }
        Some(7) => {
            args.extend(["--retries".to_string(), "-1".to_string()]);
            Some("negative-retries-flag")
        }
        Some(_) => {
            let i = args.iter().position(|a| a == "--port").map(|i| i + 1);
            match i {
                Some(i) => args[i] = "70000".into(),
                None => args.extend(["--port".to_string(), "70000".to_string()]),
            }
            Some("port-out-of-range")
        }
    };
    CliScn { game_id, format, mode, port, invalid, tame, args, world, extra, timeouts }
}

/// Entry point for the clisim child.
pub fn world_from_scenario_file(bytes: &[u8]) -> Result<World, String> {
    let f: ScenarioFile = serde_json::from_slice(bytes).map_err(|e| e.to_string())?;
    let mut t = Tape::replay(f.tape);
    Ok(cli_scenario(f.idx, &mut t).world)
}

fn clisim_path() -> std::path::PathBuf { crate::runner::verif_dir().join("clisim/target/release/clisim") }

fn bson_to_json(b: &bson::Bson) -> Value {
    use bson::Bson;
    match b {
        Bson::Double(f) => serde_json::Number::from_f64(*f).map_or(Value::Null, Value::Number),
        Bson::String(s) => json!(s),
        Bson::Array(a) => Value::Array(a.iter().map(bson_to_json).collect()),
        Bson::Document(d) => Value::Object(d.iter().map(|(k, v)| (k.clone(), bson_to_json(v))).collect()),
        Bson::Boolean(x) => json!(x),
        Bson::Null => Value::Null,
        Bson::Int32(i) => json!(i),
        Bson::Int64(i) => json!(i),
        other => json!(format!("{other:?}")),
    }
}

/// Numbers compare by value (u64 / i64 / f64 representations differ between encodings).
fn numeric_equal(a: &Value, b: &Value) -> bool {
    match (a, b) {
        (Value::Number(x), Value::Number(y)) => x.as_f64() == y.as_f64() || x.to_string() == y.to_string(),
        (Value::Array(x), Value::Array(y)) => x.len() == y.len() && x.iter().zip(y).all(|(p, q)| numeric_equal(p, q)),
        (Value::Object(x), Value::Object(y)) => x.len() == y.len() && x.iter().all(|(k, v)| y.get(k).map_or(false, |w| numeric_equal(v, w))),
        _ => a == b,
    }
}

impl Prop for C19 {
    fn id(&self) -> &'static str { "C19" }

    fn level(&self) -> &'static str { "exploration" }

    fn cases(&self, tier: Tier) -> u64 {
        match tier {
            Tier::Quick => 3_000,
            Tier::Thorough => 150_000,
        }
    }

    fn run_case(&self, idx: u64, mut t: Tape, detail: bool) -> (CaseOut, Tape) {
        let mut out = CaseOut::default();
        let exe = clisim_path();
        if !exe.exists() {
            eprintln!("HARNESS-ERROR clisim binary missing at {} (run ./check C19 quick, which builds it)", exe.display());
            std::process::exit(2);
        }
        let scn = cli_scenario(idx, &mut t);
        let tape_snapshot = t.data.clone();
        // ---- in-harness reference run of the same query on the same world
        // (naming the host makes the tool pass extra request settings that carry the name, which also
        // replace the definition's own gather settings: the reference call does the same)
        let named = scn.args.get(4).is_some_and(|a| a == "localhost");
        let extra = scn.extra.clone();
        if named {
            out.probe("host_given_by_name");
        }
        if scn.args.iter().any(|a| a.starts_with("--gather") || a.starts_with("--check-app-id") || a.starts_with("--protocol-version") || a == "--hostname") {
            out.probe("query_option_flags");
        }
        let timeout = scn.timeouts.map(|(r, w, c, n)| {
            out.probe("timeout_flags");
            let d = |s: u64| Some(std::time::Duration::from_secs(s));
            gamedig::protocols::types::TimeoutSettings::new(d(r), d(w), d(c), n).expect("non-zero timeouts")
        });
        let call = Call { entry: Entry::Generic { game_id: scn.game_id, extra, level: 2 }, ip: SERVER_IP, port: scn.port, default_port: 0, timeout };
        let reference = run_call(scn.world, &call);
        out.absorb(&reference.world);
        // ---- the real CLI in its own process
        let dir = crate::runner::verif_dir().join("work").join("cli");
        let _ = std::fs::create_dir_all(&dir);
        let file = dir.join(format!("scn-{}-{}.json", std::process::id(), idx));
        std::fs::write(&file, serde_json::to_vec(&ScenarioFile { idx, tape: tape_snapshot }).unwrap()).expect("scenario file");
        let sends_file = dir.join(format!("sends-{}-{}.json", std::process::id(), idx));
        let child = Command::new(&exe)
            .args(&scn.args)
            .env("VERIF_CLI_SCENARIO", &file)
            .env("VERIF_CLI_SENDS", &sends_file)
            .env("RUST_BACKTRACE", "0")
            .env("RUST_LIB_BACKTRACE", "0")
            .stdin(Stdio::null())
            .output();
        let _ = std::fs::remove_file(&file);
        let cli_sends: Vec<(String, String)> = std::fs::read(&sends_file).ok().and_then(|b| serde_json::from_slice(&b).ok()).unwrap_or_default();
        let _ = std::fs::remove_file(&sends_file);
        let o = match child {
            Ok(o) => o,
            Err(e) => {
                eprintln!("HARNESS-ERROR cannot run clisim: {e}");
                std::process::exit(2);
            }
        };
        out.runs += 1;
        let stdout = String::from_utf8_lossy(&o.stdout).to_string();
        let stderr = String::from_utf8_lossy(&o.stderr).to_string();
        let code = o.status.code();
        if code == Some(99) {
            eprintln!("HARNESS-ERROR {stderr}");
            std::process::exit(2);
        }
        let panicked = stderr.contains("panicked at") || code == Some(101) || code.is_none();
        let fam = format!("{}|{}", scn.format, scn.mode);
        let mut pending: Vec<Violation> = Vec::new();
        let mut probes: Vec<&'static str> = Vec::new();
        let argv = scn.args.join(" ");
        let mut viol = |sig: String, what: &str, e: String, ob: String| {
            pending.push(Violation::new(sig, format!("[gamedig_cli {argv}] {what}"), e, ob.chars().take(300).collect::<String>()));
        };
        if panicked {
            let line = stderr.lines().find(|l| l.contains("panicked at")).unwrap_or("").to_string();
            let place = line.split("panicked at ").nth(1).unwrap_or("").split(':').next().unwrap_or("").rsplit('/').next().unwrap_or("").to_string();
            viol(format!("panic/{place}"), "the command-line tool panicked", "a document or a clean error".into(), stderr.clone());
        } else if let Some(kind) = scn.invalid {
            probes.push("invalid_invocation");
            if code == Some(0) {
                viol(format!("invalid/{kind}/exit-0"), "an invalid invocation exited successfully", "non-zero exit status".into(), stdout.clone());
            } else if stderr.trim().is_empty() {
                viol(format!("invalid/{kind}/no-message"), "an invalid invocation printed no error message", "a message on stderr".into(), format!("exit {code:?}"));
            }
        } else {
            // the tool must put on the wire what the library call it stands for puts there: same requests
            // to the same ports in the same order (the host name it was given included)
            let want: Vec<(u16, String)> = reference.world.client_sends().into_iter().map(|(to, d)| (to.port(), d.iter().map(|b| format!("{b:02x}")).collect())).collect();
            let got: Vec<(u16, String)> = cli_sends.iter().map(|(to, d)| (to.rsplit(':').next().and_then(|p| p.parse().ok()).unwrap_or(0), d.clone())).collect();
            if !(want.is_empty() && got.is_empty()) {
                probes.push("tool_transmissions_compared");
            }
            if want != got {
                let i = want.iter().zip(got.iter()).position(|(a, b)| a != b).unwrap_or(want.len().min(got.len()));
                let show = |v: &Vec<(u16, String)>| v.get(i).map_or("<nothing>".to_string(), |(p, d)| format!("port {p}: {}", &d[.. d.len().min(120)]));
                viol(format!("{fam}|transmissions-differ"), &format!("transmission #{i} of the tool is not the one of the library call with the same game, address, port and options"), show(&want), show(&got));
            }
            // ... and, whatever the library does with it: a port given on the command line is where every
            // transmission of the tool goes; none given, the game's default port from the golden table
            let expected_port = scn.port.or_else(|| crate::golden::port(scn.game_id));
            if let Some(p) = expected_port {
                if let Some((q, d)) = got.iter().find(|(q, _)| *q != p) {
                    viol(
                        format!("{fam}|port-not-the-one-asked"),
                        if scn.port.is_some() { "the tool sent to another port than the one given with --port" } else { "the tool sent to another port than the game's default" },
                        format!("port {p}"),
                        format!("port {q}: {}", &d[.. d.len().min(120)]),
                    );
                }
            }
            // the library's own verdict on this query
            match &reference.result {
                Some(Ok(Resp::Generic { json: gj, original, nonfinite, .. })) => {
                    probes.push("valid_invocation");
                    let mut expected = if scn.mode == "generic" { gj.clone() } else { original.clone() };
                    // HashSet-backed lists have no order (and a per-process random one)
                    let canon = |v: &mut Value| {
                        if let Some(inner) = v.get_mut("Unreal2") {
                            crate::models::unreal2::canonicalise(inner);
                        }
                    };
                    canon(&mut expected);
                    if code != Some(0) {
                        let class = crate::harness::class_of(stderr.lines().next().unwrap_or("").trim_start_matches("Error: "));
                        viol(format!("{fam}|failed/{class}"), "the library query succeeds but the tool failed", "exit 0".into(), stderr.clone());
                    } else if stdout.trim().is_empty() {
                        viol(format!("{fam}|no-document"), "exit status 0 but nothing was printed", "one document".into(), stderr.clone());
                    } else {
                        match scn.format {
                            "debug" => {}
                            "json" | "json-pretty" => {
                                match serde_json::from_str::<Value>(&stdout) {
                                    Err(e) => viol(format!("{fam}|not-json"), "output is not one JSON document", "well-formed JSON".into(), e.to_string()),
                                    Ok(mut v) => {
                                        canon(&mut v);
                                        if let Some((p, e, ob)) = json_diff(&expected, &v) {
                                            viol(format!("{fam}|json-values-differ"), &format!("the JSON document does not carry the library's values (at {p})"), e, ob);
                                        }
                                    }
                                }
                            }
                            "xml" => {
                                match xmlcheck::parse(stdout.trim_end_matches('\n')) {
                                    Err(e) => {
                                        let class = if xmlcheck::has_key_that_is_no_name(&expected) {
                                            // a server-supplied map key that is not an XML Name became an element name;
                                            // where the parser trips over it depends on the key's characters
                                            "element-name"
                                        } else if e.contains("XML name") || e.contains("start tag") || e.contains("end tag") || e.contains("attribute") || e.contains("is never closed") {
                                            "element-name"
                                        } else if e.contains("U+FFFE") || e.contains("U+FFFF") || e.contains("U+0000") {
                                            "unrepresentable-character"
                                        } else if e.contains("illegal literal character") || e.contains("character reference") {
                                            "illegal-character"
                                        } else {
                                            "other"
                                        };
                                        viol(format!("xml{}|not-well-formed/{class}", if scn.tame { "-tame" } else { "" }), "output is not a well-formed XML 1.1 document", "well-formed XML".into(), e);
                                    }
                                    Ok(mut tree) => {
                                        let mut exp = xmlcheck::expected_tree(&expected);
                                        xmlcheck::sort_children_by_name(&mut exp);
                                        xmlcheck::sort_children_by_name(&mut tree);
                                        if expected.get("Unreal2").is_some() {
                                            // Unreal 2 lists carry no order: compare runs of same-named siblings as multisets
                                            xmlcheck::sort_siblings(&mut exp, "*");
                                            xmlcheck::sort_siblings(&mut tree, "*");
                                        }
                                        if let Some(d) = xmlcheck::tree_diff(&exp, &tree, "") {
                                            if xmlcheck::has_key_that_is_no_name(&expected) {
                                                // the same defect as the not-well-formed documents: a server-supplied key that is
                                                // no XML Name was written as an element name; here the pieces happen to balance
                                                viol(format!("xml{}|not-well-formed/element-name", if scn.tame { "-tame" } else { "" }), "a map key that is no XML Name became an element name: the document is well-formed by accident and has other elements", "the documented JSON -> XML mapping of the values".into(), d);
                                            } else {
                                                viol(format!("{fam}|xml-values-differ"), "the XML document does not carry the library's values", "the documented JSON -> XML mapping of the values".into(), d);
                                            }
                                        }
                                    }
                                }
                            }
                            _ => {
                                let bytes = if scn.format == "bson-hex" {
                                    hex::decode(stdout.trim()).map_err(|e| e.to_string())
                                } else {
                                    base64::prelude::BASE64_STANDARD.decode(stdout.trim()).map_err(|e| e.to_string())
                                };
                                match bytes.and_then(|b| bson::Document::from_reader(&mut b.as_slice()).map_err(|e| e.to_string())) {
                                    Err(e) => viol(format!("{fam}|not-bson"), "output does not decode to one BSON document", "hex / base64 of one BSON document".into(), e),
                                    Ok(doc) => {
                                        // BSON can carry NaN and the infinities: they must arrive as such
                                        let want = nonfinite[usize::from(scn.mode != "generic")];
                                        let got = crate::entry::count_nonfinite(&bson::Bson::Document(doc.clone()));
                                        if got != want {
                                            viol(format!("{fam}|bson-non-finite-values-lost"), "NaN / infinite values of the response are not in the BSON document", format!("{want} non-finite doubles"), format!("{got}"));
                                        } else if want > 0 {
                                            probes.push("bson_non_finite_value_carried");
                                        }
                                        let mut v = bson_to_json(&bson::Bson::Document(doc));
                                        canon(&mut v);
                                        if !numeric_equal(&expected, &v) {
                                            let d = json_diff(&expected, &v).map(|(p, e, ob)| format!("{p}: {e} vs {ob}")).unwrap_or_default();
                                            viol(format!("{fam}|bson-values-differ"), "the BSON document does not carry the library's values", "equal values".into(), d);
                                        }
                                    }
                                }
                            }
                        }
                    }
                }
                Some(Err(_)) => {
                    probes.push("query_fails_in_library_too");
                    if code == Some(0) {
                        viol(format!("{fam}|exit-0-on-error"), "the library query fails but the tool exited successfully", "non-zero exit".into(), stdout.clone());
                    }
                }
                _ => {}
            }
        }
        for v in pending {
            out.violate(v);
        }
        for p in probes {
            out.probe(p);
        }
        out.nontrivial = true;
        out.distinct_key = crate::rng::mix(&[out.log_hash, crate::rng::hash_str(&scn.args.join(" "))]);
        if detail {
            out.sample = Some(json!({"argv": scn.args, "exit": code, "stdout": stdout.chars().take(if std::env::var_os("GDSIM_FULL_OUTPUT").is_some() { 100_000 } else { 300 }).collect::<String>(), "stderr": stderr.chars().take(200).collect::<String>(),
                "library_result": super::describe_result(&reference.result, &reference.crash).chars().take(if std::env::var_os("GDSIM_FULL_OUTPUT").is_some() { 100_000 } else { 200 }).collect::<String>()}));
            out.schedule = reference.world.render_history(40);
        }
        let _ = std::io::stdout().flush();
        (out, t)
    }

    fn rule(&self) -> String {
        "case index cycles over the 6 output formats x 2 output modes x 19 games covering every protocol family (a quarter of the cases take a random game id from the definitions table instead); every fifth case is an invalid invocation (unknown game, unresolvable .invalid host, silent / refusing server, zero or non-numeric timeout flags, bad format name, negative retries, port out of range); the tape draws the server state with names, maps, rule keys / values and player names from an alphabet with markup characters (< > & \" '), control characters and non-ASCII code points; each case runs the real tool as its own process on the simulated world and the same query in-harness on an identical world; oracle: exit 0 and exactly one document that parses in the requested format (JSON; strict XML 1.1 well-formedness; BSON from hex / base64; debug non-empty) and carries the values the library returned, or a non-zero exit with a message and no panic text; distinct = (event-log hash, argv)".to_string()
    }

    fn assumptions(&self) -> Vec<String> {
        vec![
            "the shadow binary includes crates/cli/src/main.rs and error.rs verbatim; only its 30-line process entry (installing the simulated world) is a stub; the browser feature is off".into(),
            "the XML value comparison follows the JSON -> XML mapping documented in the tool's own comments (objects -> child elements, arrays -> repeated elements, null -> empty element)".into(),
            "name resolution of the .invalid host uses the real resolver of the sandbox (no network: it fails)".into(),
        ]
    }

    fn required_probes(&self) -> Vec<&'static str> { vec!["valid_invocation", "invalid_invocation"] }

    fn components(&self) -> Value {
        let mut c = standard_components();
        c["real"].as_array_mut().unwrap().push(json!("crates/cli/src/main.rs and error.rs (clap parsing of the real argv, find_game, resolve, output writers) in a separate process per invocation"));
        c["stubbed"].as_array_mut().unwrap().push(json!("the CLI's process entry (30 lines) and the browser feature"));
        c
    }
}

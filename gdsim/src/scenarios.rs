//! Drawing entry points with settings: the entry-point registry as a
//! distribution, shared by C01, C13, C18 and others.

use crate::entry::{Call, Entry, GAMESPY_GAMES, QUAKE_GAMES, UNREAL2_GAMES, VALVE_GAMES};
use crate::gen;
use crate::hostile::Fam;
use crate::tape::{Tape, CFG};
use crate::world::Proto;
use gamedig::games::minecraft::{LegacyGroup, RequestSettings};
use gamedig::protocols::types::{ExtraRequestSettings, ProprietaryProtocol, Protocol};
use gamedig::protocols::valve::Engine;
use gamedig::protocols::{gamespy::GameSpyVersion, quake::QuakeVersion, unreal2, valve};
use gamedig::valve_master_server::{Filter, Region, SearchFilters};
use std::net::{IpAddr, SocketAddr};

pub struct Placement {
    pub addr: SocketAddr,
    pub proto: Proto,
    pub fam: Fam,
}

pub struct Scenario {
    pub call: Call,
    pub placements: Vec<Placement>,
    pub http: bool,
}

pub fn sorted_game_ids() -> Vec<&'static str> {
    let mut ids: Vec<&'static str> = gamedig::GAMES.keys().copied().collect();
    ids.sort();
    ids
}

fn valve_fam(e: &Engine) -> Fam {
    match e {
        Engine::GoldSrc(_) => Fam::ValveGoldSrc,
        _ if *e == Engine::new(2400) => Fam::ValveShip,
        _ => Fam::Valve,
    }
}

pub fn gen_engine(t: &mut Tape) -> Engine {
    match t.draw(CFG, 9) {
        0 => Engine::Source(None),
        1 => Engine::new(440),
        2 => Engine::new(240),
        3 => Engine::new(2400),
        4 => Engine::new(632_360),
        5 => Engine::new_with_dedicated(730, 740),
        6 => Engine::GoldSrc(false),
        7 => Engine::GoldSrc(true),
        _ => Engine::new(t.draw(CFG, 1 << 24) as u32),
    }
}

pub fn gen_valve_gather(t: &mut Tape) -> Option<valve::GatheringSettings> {
    if t.draw(CFG, 3) == 0 {
        None
    } else {
        Some(valve::GatheringSettings {
            players: gen::toggle(t),
            rules: gen::toggle(t),
            check_app_id: t.draw(CFG, 2) == 0,
        })
    }
}

pub fn gen_extra(t: &mut Tape) -> Option<ExtraRequestSettings> {
    if t.draw(CFG, 2) == 0 {
        return None;
    }
    let opt_toggle = |t: &mut Tape| if t.draw(CFG, 2) == 0 { None } else { Some(gen::toggle(t)) };
    Some(ExtraRequestSettings {
        hostname: if t.draw(CFG, 2) == 0 { None } else { Some(gen::word(t, 20)) },
        protocol_version: if t.draw(CFG, 2) == 0 { None } else { Some(gen::i32_(t)) },
        gather_players: opt_toggle(t),
        gather_rules: opt_toggle(t),
        check_app_id: if t.draw(CFG, 2) == 0 { None } else { Some(t.draw(CFG, 2) == 0) },
    })
}

pub fn gen_mc_settings(t: &mut Tape) -> Option<RequestSettings> {
    match t.draw(CFG, 3) {
        0 => None,
        1 => Some(RequestSettings::new_just_hostname(gen::word(t, 30))),
        _ => {
            Some(RequestSettings {
                hostname: gen::string(t, &gen::StrOpts::plain(300)),
                protocol_version: gen::i32_(t),
            })
        }
    }
}

/// Families (and transports) a definition-table protocol talks to.
pub fn placements_for_protocol(p: &Protocol, ip: IpAddr, port: u16, port_given: bool, t: &mut Tape) -> (Vec<Placement>, bool) {
    let udp = |fam| vec![Placement { addr: SocketAddr::new(ip, port), proto: Proto::Udp, fam }];
    let tcp = |fam| vec![Placement { addr: SocketAddr::new(ip, port), proto: Proto::Tcp, fam }];
    let _ = port_given;
    match p {
        Protocol::Valve(e) => (udp(valve_fam(e)), false),
        Protocol::Gamespy(GameSpyVersion::One) => (udp(Fam::Gs1), false),
        Protocol::Gamespy(GameSpyVersion::Two) => (udp(Fam::Gs2), false),
        Protocol::Gamespy(GameSpyVersion::Three) => (udp(Fam::Gs3), false),
        Protocol::Quake(QuakeVersion::One) => (udp(Fam::Quake1), false),
        Protocol::Quake(QuakeVersion::Two) => (udp(Fam::Quake2), false),
        Protocol::Quake(QuakeVersion::Three) => (udp(Fam::Quake3), false),
        Protocol::Unreal2 => (udp(Fam::Unreal2), false),
        Protocol::PROPRIETARY(pp) => {
            match pp {
                ProprietaryProtocol::TheShip => (udp(Fam::ValveShip), false),
                ProprietaryProtocol::FFOW => (udp(Fam::Ffow), false),
                ProprietaryProtocol::JC2M => (udp(Fam::Jc2m), false),
                ProprietaryProtocol::Savage2 => (udp(Fam::Savage2), false),
                ProprietaryProtocol::Mindustry => (udp(Fam::Mindustry), false),
                ProprietaryProtocol::Eco => if t.draw(CFG, 2) == 0 { (tcp(Fam::EcoHttp), false) } else { (Vec::new(), true) },
                ProprietaryProtocol::Minecraft(v) => {
                    use gamedig::games::minecraft::Server as S;
                    match v {
                        Some(S::Java) => (tcp(Fam::McJava), false),
                        Some(S::Bedrock) => (udp(Fam::McBedrock), false),
                        Some(S::Legacy(LegacyGroup::V1_6)) => (tcp(Fam::McLegacy16), false),
                        Some(S::Legacy(LegacyGroup::V1_4)) => (tcp(Fam::McLegacy14), false),
                        Some(S::Legacy(LegacyGroup::VB1_8)) => (tcp(Fam::McLegacyB18), false),
                        None => (mc_auto_placements(t, ip, port, port), false),
                    }
                }
            }
        }
    }
}

fn mc_auto_placements(t: &mut Tape, ip: IpAddr, tcp_port: u16, udp_port: u16) -> Vec<Placement> {
    let mut v = Vec::new();
    if t.draw(CFG, 4) != 0 {
        let fam = *t.pick(CFG, &[Fam::McJava, Fam::McLegacy16, Fam::McLegacy14, Fam::McLegacyB18]);
        v.push(Placement { addr: SocketAddr::new(ip, tcp_port), proto: Proto::Tcp, fam });
    }
    if t.draw(CFG, 3) != 0 {
        v.push(Placement { addr: SocketAddr::new(ip, udp_port), proto: Proto::Udp, fam: Fam::McBedrock });
    }
    v
}

pub fn gen_filters(t: &mut Tape) -> Option<SearchFilters> {
    if t.draw(CFG, 3) == 0 {
        return None;
    }
    let mut f = SearchFilters::new();
    let n = t.draw(CFG, 5);
    for _ in 0 .. n {
        let filter = gen_filter(t);
        f = match t.draw(CFG, 3) {
            0 => f.insert(filter),
            1 => f.insert_nand(filter),
            _ => f.insert_nor(filter),
        };
    }
    Some(f)
}

pub fn gen_filter(t: &mut Tape) -> Filter {
    let b = t.draw(CFG, 2) == 1;
    let s = |t: &mut Tape| gen::word(t, 8);
    match t.draw(CFG, 18) {
        0 => Filter::IsSecured(b),
        1 => Filter::RunsMap(s(t)),
        2 => Filter::CanHavePassword(b),
        3 => Filter::CanBeEmpty(b),
        4 => Filter::IsEmpty(b),
        5 => Filter::CanBeFull(b),
        6 => Filter::RunsAppID(gen::u32_(t)),
        7 => Filter::NotAppID(gen::u32_(t)),
        8 => {
            let n = t.draw(CFG, 4);
            Filter::HasTags((0 .. n).map(|_| s(t)).collect())
        }
        9 => Filter::MatchName(s(t)),
        10 => Filter::MatchVersion(s(t)),
        11 => Filter::RestrictUniqueIP(b),
        12 => Filter::OnAddress(s(t)),
        13 => Filter::Whitelisted(b),
        14 => Filter::SpectatorProxy(b),
        15 => Filter::IsDedicated(b),
        16 => Filter::RunsLinux(b),
        _ => Filter::HasGameDir(s(t)),
    }
}

pub const REGIONS: [Region; 9] = [
    Region::UsEast,
    Region::UsWest,
    Region::AmericaSouth,
    Region::Europe,
    Region::Asia,
    Region::Australia,
    Region::MiddleEast,
    Region::Africa,
    Region::Others,
];

/// Draw one entry point of the registry with settings, and say where its
/// server(s) must live. `max_retries` bounds the retry setting.
/// The HTTP game against a scripted TCP peer (the real HTTP client runs), through the module or the
/// definition-driven entry point.
pub fn eco_http_scenario(t: &mut Tape, ip: IpAddr, max_retries: u64) -> Scenario {
    let explicit_port = if t.draw(CFG, 2) == 0 { None } else { Some(1024 + t.draw(CFG, 60_000) as u16) };
    let timeout = gen::timeouts(t, max_retries);
    let level = t.draw(CFG, 4) as u8;
    let entry = if t.draw(CFG, 3) == 0 { Entry::Generic { game_id: "eco", extra: None, level: level.min(2) } } else { Entry::Eco { level } };
    let call = Call { entry, ip, port: explicit_port, default_port: 3001, timeout: if level == 0 { None } else { timeout } };
    let addr = call.sockaddr();
    Scenario { call, placements: vec![Placement { addr, proto: Proto::Tcp, fam: Fam::EcoHttp }], http: false }
}

pub fn gen_scenario(t: &mut Tape, ip: IpAddr, max_retries: u64) -> Scenario {
    let explicit_port = if t.draw(CFG, 2) == 0 { None } else { Some(1024 + t.draw(CFG, 60_000) as u16) };
    let timeout = gen::timeouts(t, max_retries);
    let mk = |entry: Entry, default_port: u16, proto: Proto, fam: Fam, timeout| {
        let call = Call { entry, ip, port: explicit_port, default_port, timeout };
        let addr = call.sockaddr();
        Scenario { call, placements: vec![Placement { addr, proto, fam }], http: false }
    };
    let group = t.draw(CFG, 24);
    match group {
        0 | 1 => {
            let engine = gen_engine(t);
            let gather = gen_valve_gather(t);
            mk(Entry::Valve { engine, gather }, 27015, Proto::Udp, valve_fam(&engine), timeout)
        }
        2 => {
            let i = t.draw(CFG, VALVE_GAMES.len() as u64) as usize;
            let e = (VALVE_GAMES[i].engine)();
            mk(Entry::ValveGame(i), VALVE_GAMES[i].port, Proto::Udp, valve_fam(&e), None)
        }
        3 => {
            let version = 1 + t.draw(CFG, 3) as u8;
            let vars = version != 2 && t.draw(CFG, 3) == 0;
            let fam = [Fam::Gs1, Fam::Gs2, Fam::Gs3][version as usize - 1];
            mk(Entry::Gs { version, vars }, 7778, Proto::Udp, fam, timeout)
        }
        4 => {
            let i = t.draw(CFG, GAMESPY_GAMES.len() as u64) as usize;
            let fam = [Fam::Gs1, Fam::Gs2, Fam::Gs3][GAMESPY_GAMES[i].version as usize - 1];
            mk(Entry::GsGame(i), GAMESPY_GAMES[i].port, Proto::Udp, fam, None)
        }
        5 => {
            let version = 1 + t.draw(CFG, 3) as u8;
            let fam = [Fam::Quake1, Fam::Quake2, Fam::Quake3][version as usize - 1];
            mk(Entry::Quake { version }, 27960, Proto::Udp, fam, timeout)
        }
        6 => {
            let i = t.draw(CFG, QUAKE_GAMES.len() as u64) as usize;
            let fam = [Fam::Quake1, Fam::Quake2, Fam::Quake3][QUAKE_GAMES[i].version as usize - 1];
            mk(Entry::QuakeGame(i), QUAKE_GAMES[i].port, Proto::Udp, fam, None)
        }
        7 => {
            let gather = unreal2::GatheringSettings { players: gen::toggle(t), mutators_and_rules: gen::toggle(t) };
            mk(Entry::Unreal2 { gather }, 7778, Proto::Udp, Fam::Unreal2, timeout)
        }
        8 => {
            let i = t.draw(CFG, UNREAL2_GAMES.len() as u64) as usize;
            mk(Entry::Unreal2Game(i), UNREAL2_GAMES[i].port, Proto::Udp, Fam::Unreal2, None)
        }
        9 => {
            let settings = gen_mc_settings(t);
            mk(Entry::McJava { settings }, 25565, Proto::Tcp, Fam::McJava, timeout)
        }
        10 => mk(Entry::McBedrock, 19132, Proto::Udp, Fam::McBedrock, timeout),
        11 => {
            let g = *t.pick(CFG, &[LegacyGroup::V1_6, LegacyGroup::V1_4, LegacyGroup::VB1_8]);
            let fam = match g {
                LegacyGroup::V1_6 => Fam::McLegacy16,
                LegacyGroup::V1_4 => Fam::McLegacy14,
                LegacyGroup::VB1_8 => Fam::McLegacyB18,
            };
            let game_level = t.draw(CFG, 2) == 0;
            if game_level {
                mk(Entry::McGameLegacySpecific(g), 25565, Proto::Tcp, fam, None)
            } else {
                mk(Entry::McLegacySpecific(g), 25565, Proto::Tcp, fam, timeout)
            }
        }
        12 => {
            // auto-detecting queries
            let which = t.draw(CFG, 4);
            let (entry, ts, udp_default) = match which {
                0 => (Entry::McAuto { settings: gen_mc_settings(t) }, timeout, 25565),
                1 => (Entry::McLegacy, timeout, 25565),
                2 => (Entry::McGameAuto, None, 19132),
                _ => (Entry::McGameLegacy, None, 25565),
            };
            let call = Call { entry, ip, port: explicit_port, default_port: 25565, timeout: ts };
            let tcp_port = explicit_port.unwrap_or(25565);
            let udp_port = explicit_port.unwrap_or(udp_default);
            let placements = mc_auto_placements(t, ip, tcp_port, udp_port);
            Scenario { call, placements, http: false }
        }
        13 => {
            let which = t.draw(CFG, 2);
            if which == 0 {
                mk(Entry::McGameJava { settings: gen_mc_settings(t) }, 25565, Proto::Tcp, Fam::McJava, None)
            } else {
                mk(Entry::McGameBedrock, 19132, Proto::Udp, Fam::McBedrock, None)
            }
        }
        14 => {
            let wt = t.draw(CFG, 2) == 0;
            mk(Entry::TheShip { with_timeout: wt }, 27015, Proto::Udp, Fam::ValveShip, if wt { timeout } else { None })
        }
        15 => {
            let wt = t.draw(CFG, 2) == 0;
            mk(Entry::Ffow { with_timeout: wt }, 5478, Proto::Udp, Fam::Ffow, if wt { timeout } else { None })
        }
        16 => {
            let wt = t.draw(CFG, 2) == 0;
            mk(Entry::Jc2m { with_timeout: wt }, 7777, Proto::Udp, Fam::Jc2m, if wt { timeout } else { None })
        }
        17 => {
            let wt = t.draw(CFG, 2) == 0;
            mk(Entry::Savage2 { with_timeout: wt }, 11235, Proto::Udp, Fam::Savage2, if wt { timeout } else { None })
        }
        18 => mk(Entry::Mindustry, 6567, Proto::Udp, Fam::Mindustry, timeout),
        19 => mk(Entry::Battalion, 7780, Proto::Udp, Fam::Valve, None),
        20 => {
            let level = t.draw(CFG, 3) as u8;
            let call = Call {
                entry: Entry::Eco { level },
                ip,
                port: explicit_port,
                default_port: 3001,
                timeout: if level == 0 { None } else { timeout },
            };
            // half of the cases: a scripted TCP peer, the real HTTP client runs against it
            if t.draw(CFG, 2) == 0 {
                let addr = call.sockaddr();
                Scenario { call, placements: vec![Placement { addr, proto: Proto::Tcp, fam: Fam::EcoHttp }], http: false }
            } else {
                Scenario { call, placements: Vec::new(), http: true }
            }
        }
        21 => {
            let region = *t.pick(CFG, &REGIONS);
            let filters = gen_filters(t);
            let entry = if t.draw(CFG, 2) == 0 {
                Entry::MasterQuery { region, filters }
            } else {
                Entry::MasterSpecific { region, filters, last_ip: "0.0.0.0".into(), last_port: 0 }
            };
            let call = Call { entry, ip, port: Some(explicit_port.unwrap_or(27011)), default_port: 27011, timeout: None };
            let addr = call.sockaddr();
            Scenario { call, placements: vec![Placement { addr, proto: Proto::Udp, fam: Fam::Master }], http: false }
        }
        _ => {
            // the definition-driven dispatch over every entry of GAMES
            let ids = sorted_game_ids();
            let id = ids[t.draw(CFG, ids.len() as u64) as usize];
            let game = gamedig::GAMES.get(id).unwrap();
            let level = t.draw(CFG, 3) as u8;
            let extra = if level == 2 { gen_extra(t) } else { None };
            let ts = if level == 0 { None } else { timeout };
            let port = explicit_port.unwrap_or(game.default_port);
            let (mut placements, http) = placements_for_protocol(&game.protocol, ip, port, explicit_port.is_some(), t);
            // the generic Minecraft auto query probes Bedrock on the same port
            let call = Call { entry: Entry::Generic { game_id: id, extra, level }, ip, port: explicit_port, default_port: game.default_port, timeout: ts };
            if placements.is_empty() && !http {
                placements = Vec::new();
            }
            Scenario { call, placements, http }
        }
    }
}

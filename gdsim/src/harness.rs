//! Running one real gamedig call inside a simulated world: panic capture,
//! allocator window, crash classification.

use crate::alloc::{self, AllocStats};
use crate::entry::{invoke, Call, ErrInfo, Resp};
use crate::world::{SimBackend, World, SIM_BLOCKED, SIM_OP_BUDGET};
use std::cell::RefCell;
use std::panic::{catch_unwind, AssertUnwindSafe};
use std::rc::Rc;

#[derive(Clone, Debug)]
pub enum Crash {
    /// a panic inside gamedig (or a dependency it called)
    Panic { msg: String, loc: String, func: String },
    /// the client kept performing socket operations beyond the budget
    OpBudget,
    /// the client blocked with no timeout and nothing could ever arrive
    BlockedForever,
}

impl Crash {
    pub fn signature(&self) -> String {
        match self {
            Crash::Panic { msg, func, .. } => format!("panic/{}/{}", func, class_of(msg)),
            Crash::OpBudget => "hang/op-budget".to_string(),
            Crash::BlockedForever => "hang/blocked-without-timeout".to_string(),
        }
    }

    pub fn describe(&self) -> String {
        match self {
            Crash::Panic { msg, loc, func } => format!("panic '{msg}' at {loc} in {func}"),
            Crash::OpBudget => "client exceeded the socket-operation budget (does not return)".to_string(),
            Crash::BlockedForever => "client blocked in a receive with no timeout and no pending event".to_string(),
        }
    }
}

/// Message class: digits collapsed, so that sizes and indices do not make
/// distinct signatures.
pub fn class_of(msg: &str) -> String {
    let mut out = String::new();
    let mut in_num = false;
    for c in msg.chars() {
        if c.is_ascii_digit() {
            if !in_num {
                out.push('#');
            }
            in_num = true;
        } else {
            in_num = false;
            out.push(if c.is_whitespace() { ' ' } else { c });
        }
        if out.len() > 100 {
            break;
        }
    }
    out
}

thread_local! {
    static LAST_PANIC: RefCell<Option<(String, String, String)>> = const { RefCell::new(None) };
    static IN_RUN: std::cell::Cell<bool> = const { std::cell::Cell::new(false) };
}

fn strip_generics(s: &str) -> String {
    let mut out = String::new();
    let mut depth = 0;
    for c in s.chars() {
        match c {
            '<' => depth += 1,
            '>' => depth -= 1,
            _ if depth == 0 => out.push(c),
            _ => {}
        }
    }
    out
}

pub fn innermost_gamedig_frame(bt: &str) -> String {
    // Preferred: the first frame located in the repository's library sources, named by the
    // function enclosing that source line.
    for line in bt.lines() {
        let l = line.trim_start();
        if let Some(loc) = l.strip_prefix("at ") {
            if loc.contains("/crates/lib/src/") && !loc.contains("verif_hook") {
                let mut parts = loc.rsplitn(3, ':');
                let _col = parts.next();
                let line_no = parts.next().and_then(|s| s.parse::<u32>().ok());
                let file = parts.next();
                if let (Some(f), Some(n)) = (file, line_no) {
                    if let Some(name) = enclosing_fn(f, n) {
                        return name;
                    }
                }
            }
        }
    }
    for line in bt.lines() {
        let l = line.trim_start();
        let Some((num, sym)) = l.split_once(": ") else { continue };
        if num.is_empty() || !num.chars().all(|c| c.is_ascii_digit()) {
            continue;
        }
        if !sym.contains("gamedig::") || sym.contains("verif_hook") {
            continue;
        }
        let mut s = sym.trim().to_string();
        if let Some(i) = s.rfind("::h") {
            if s.len() - i == 19 {
                s.truncate(i);
            }
        }
        // for `<gamedig::A as B>::f` keep A::f
        let s = if s.starts_with('<') {
            let inner = &s[1 ..];
            let ty = inner.split(" as ").next().unwrap_or(inner);
            let f = s.rsplit(">::").next().unwrap_or("");
            format!("{}::{}", strip_generics(ty), f)
        } else {
            strip_generics(&s)
        };
        // a std frame whose generic arguments mention gamedig is not a gamedig frame
        if !s.starts_with("gamedig::") {
            continue;
        }
        let s = s.replace("::{{closure}}", "").replace("::{closure#0}", "");
        return s.trim_start_matches("gamedig::").to_string();
    }
    "unknown".to_string()
}

/// The function enclosing `file:line`, read from the source itself: robust against
/// inlining and against unrelated edits that shift line numbers.
pub fn enclosing_fn(file: &str, line: u32) -> Option<String> {
    if !file.contains("/crates/") {
        return None;
    }
    let src = std::fs::read_to_string(file).ok()?;
    let lines: Vec<&str> = src.lines().collect();
    let mut i = (line as usize).min(lines.len());
    while i > 0 {
        i -= 1;
        let l = lines[i].trim_start();
        if let Some(pos) = l.find("fn ") {
            let before = &l[.. pos];
            if before.is_empty() || before.ends_with(' ') || before.ends_with('(') {
                let name: String = l[pos + 3 ..]
                    .chars()
                    .take_while(|c| c.is_alphanumeric() || *c == '_')
                    .collect();
                if !name.is_empty() && !l.starts_with("//") {
                    let rel = file.rsplit("/src/").next().unwrap_or(file).trim_end_matches(".rs");
                    return Some(format!("{rel}::{name}"));
                }
            }
        }
    }
    None
}

pub fn install_panic_hook() {
    std::panic::set_hook(Box::new(|info| {
        let _g = alloc::InHarness::enter();
        let msg = if let Some(s) = info.payload().downcast_ref::<&str>() {
            s.to_string()
        } else if let Some(s) = info.payload().downcast_ref::<String>() {
            s.clone()
        } else {
            "non-string panic payload".to_string()
        };
        let loc = info
            .location()
            .map(|l| format!("{}:{}", l.file(), l.line()))
            .unwrap_or_default();
        // a panic located in the simulator's own sources is a harness error, never a verdict
        let internal = info.location().map_or(false, |l| l.file().starts_with("src/") && !l.file().contains("/crates/"));
        let msg = if internal && !msg.starts_with("GDSIM:") { format!("GDSIM:internal: {msg}") } else { msg };
        let func = if msg.starts_with("GDSIM:") {
            String::new()
        } else {
            match info.location().and_then(|l| enclosing_fn(l.file(), l.line())) {
                Some(f) => f,
                None => {
                    let bt = std::backtrace::Backtrace::force_capture().to_string();
                    innermost_gamedig_frame(&bt)
                }
            }
        };
        if std::env::var_os("GDSIM_PRINT_BACKTRACE").is_some() {
            // debugging aid for replays: where was the client when the simulator stopped it?
            eprintln!("{msg} at {loc}\n{}", std::backtrace::Backtrace::force_capture());
        }
        if !IN_RUN.with(std::cell::Cell::get) {
            // a panic outside a simulated run is a bug of the harness itself
            eprintln!("HARNESS-ERROR panic outside a simulated run: {msg} at {loc}");
        }
        LAST_PANIC.with(|p| *p.borrow_mut() = Some((msg, loc, func)));
    }));
}

pub struct RunOut {
    pub result: Option<Result<Resp, ErrInfo>>,
    pub crash: Option<Crash>,
    pub world: World,
    pub alloc: AllocStats,
}

/// Run `f` (real gamedig code) against `world`.
pub fn run_in_world<T>(world: World, f: impl FnOnce() -> T) -> (Option<T>, Option<Crash>, World, AllocStats) {
    let rc = Rc::new(RefCell::new(world));
    gamedig::verif_hook::install(Box::new(SimBackend(rc.clone())));
    verif_net::install(Box::new(SimBackend(rc.clone())));
    crate::sleephook::set_world(Some(rc.clone()));
    LAST_PANIC.with(|p| *p.borrow_mut() = None);
    alloc::begin();
    IN_RUN.with(|c| c.set(true));
    let r = catch_unwind(AssertUnwindSafe(f));
    IN_RUN.with(|c| c.set(false));
    let stats = alloc::end();
    drop(gamedig::verif_hook::uninstall());
    drop(verif_net::uninstall());
    crate::sleephook::set_world(None);
    let world = match Rc::try_unwrap(rc) {
        Ok(cell) => cell.into_inner(),
        Err(_) => panic!("GDSIM: world still shared after the run"),
    };
    match r {
        Ok(v) => (Some(v), None, world, stats),
        Err(_) => {
            let (msg, loc, func) = LAST_PANIC
                .with(|p| p.borrow_mut().take())
                .unwrap_or_else(|| ("unknown panic".into(), String::new(), String::new()));
            let crash = if msg == SIM_OP_BUDGET {
                Crash::OpBudget
            } else if msg == SIM_BLOCKED {
                Crash::BlockedForever
            } else if msg.starts_with("GDSIM:") {
                // an internal simulator error is a harness error, never a verdict
                eprintln!("HARNESS-ERROR internal simulator panic: {msg} at {loc}");
                std::process::exit(2);
            } else {
                Crash::Panic { msg, loc, func }
            };
            (None, Some(crash), world, stats)
        }
    }
}

pub fn run_call(world: World, call: &Call) -> RunOut {
    let (result, crash, world, alloc) = run_in_world(world, || invoke(call));
    RunOut { result, crash, world, alloc }
}

// ---------------- JSON diff ----------------

use serde_json::Value;

/// First difference between two JSON values: (path, expected, observed).
pub fn json_diff(exp: &Value, obs: &Value) -> Option<(String, String, String)> {
    fn short(v: &Value) -> String {
        let s = v.to_string();
        if s.len() > 160 {
            format!("{}…", &s.chars().take(160).collect::<String>())
        } else {
            s
        }
    }
    fn go(path: &str, e: &Value, o: &Value) -> Option<(String, String, String)> {
        match (e, o) {
            (Value::Object(a), Value::Object(b)) => {
                for (k, va) in a {
                    match b.get(k) {
                        Some(vb) => {
                            if let Some(d) = go(&format!("{path}/{k}"), va, vb) {
                                return Some(d);
                            }
                        }
                        None => return Some((format!("{path}/{k}"), short(va), "<absent>".into())),
                    }
                }
                for (k, vb) in b {
                    if !a.contains_key(k) {
                        return Some((format!("{path}/{k}"), "<absent>".into(), short(vb)));
                    }
                }
                None
            }
            (Value::Array(a), Value::Array(b)) => {
                if a.len() != b.len() {
                    return Some((format!("{path}/len"), a.len().to_string(), b.len().to_string()));
                }
                for (i, (va, vb)) in a.iter().zip(b.iter()).enumerate() {
                    if let Some(d) = go(&format!("{path}/[{i}]"), va, vb) {
                        return Some(d);
                    }
                }
                None
            }
            (Value::Number(a), Value::Number(b)) => {
                // floats that went through a decimal f32 rendering compare as f32
                let f32_same = a.is_f64() && b.is_f64() && a.as_f64().map(|x| x as f32) == b.as_f64().map(|x| x as f32);
                if a == b || (a.as_f64().is_some() && a.as_f64() == b.as_f64()) || f32_same {
                    None
                } else {
                    Some((path.to_string(), short(e), short(o)))
                }
            }
            _ => {
                if e == o {
                    None
                } else {
                    Some((path.to_string(), short(e), short(o)))
                }
            }
        }
    }
    go("", exp, obs)
}

/// Path with list indices and map keys of generated names removed, for
/// signatures: `/players/[3]/name` -> `/players/[]/name`.
pub fn path_class(path: &str) -> String {
    // list indices -> [], keys of data-keyed maps -> {}
    const MAPS: &[&str] = &["unused_entries", "rules", "server_achievements_dict", "vars"];
    let mut out = String::new();
    let mut after_map = false;
    for seg in path.split('/').skip(1) {
        out.push('/');
        if after_map {
            // a data key (may itself contain '/'): everything below it is dropped
            out.push_str("{}");
            break;
        }
        if seg.starts_with('[') {
            out.push_str("[]");
        } else {
            out.push_str(seg);
        }
        if MAPS.contains(&seg) {
            after_map = true;
        }
    }
    out
}

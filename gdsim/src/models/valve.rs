//! Reference model of a Valve A2S server (Source and GoldSrc), written from
//! the "Server Queries" page of the Valve developer wiki: state, encoder,
//! challenge handling, split-packet transport, and the expected response.

use crate::gen::{self, StrOpts};
use crate::tape::{Tape, CFG, DATA};
use crate::world::{Cx, Server};
use gamedig::protocols::types::GatherToggle;
use gamedig::protocols::valve::{
    self, Engine, Environment, ExtraData, GatheringSettings, ModData, ServerInfo, ServerPlayer, TheShip,
};
use std::collections::HashMap;
use std::net::SocketAddr;

pub const MTU: usize = 1400;

#[derive(Clone, Debug)]
pub struct Player {
    pub index: u8,
    pub name: String,
    pub score: i32,
    pub duration_bits: u32,
    pub deaths: u32,
    pub money: u32,
}

#[derive(Clone, Debug)]
pub struct ValveState {
    /// id of the answer before the first split answer (each split answer gets the next id, 31 bits)
    pub split_id_base: u32,
    /// the server answers A2S_INFO with the obsolete GoldSrc layout (header 'm')
    pub obsolete_info: bool,
    pub protocol: u8,
    pub name: String,
    pub map: String,
    pub folder: String,
    pub game: String,
    pub appid16: u16,
    pub players: u8,
    pub max_players: u8,
    pub bots: u8,
    pub server_type: u8,
    pub environment: u8,
    pub visibility: u8,
    pub vac: u8,
    pub ship: Option<(u8, u8, u8)>,
    pub version: String,
    pub edf: Option<u8>,
    pub port: u16,
    pub steam_id: u64,
    pub tv_port: u16,
    pub tv_name: String,
    pub keywords: String,
    pub game_id: u64,
    // obsolete layout only
    pub address: String,
    pub is_mod: u8,
    pub mod_link: String,
    pub mod_download: String,
    pub mod_version: u32,
    pub mod_size: u32,
    pub mod_type: u8,
    pub mod_dll: u8,
    pub player_list: Vec<Player>,
    pub rules: Vec<(String, String)>,
}

fn cstr(out: &mut Vec<u8>, s: &str) {
    out.extend_from_slice(s.as_bytes());
    out.push(0);
}

impl ValveState {
    /// `ship`: the server is a The Ship server; `obsolete`: it answers with the obsolete
    /// GoldSrc info layout; `appid`: if given, the server reports this app id.
    pub fn generate(t: &mut Tape, ship: bool, obsolete: bool, appid: Option<u32>, max_players: u64, max_rules: u64) -> Self {
        let s = |t: &mut Tape, n| gen::string(t, &StrOpts::plain(n));
        let edf = match t.draw(DATA, 8) {
            0 => None,
            1 => Some(0u8),
            2 => Some(0xf1),
            _ => Some(t.draw(DATA, 256) as u8),
        };
        let types_src = [b'd', b'l', b'p', b'D', b'L', b'P'];
        let envs_src = [b'l', b'w', b'm', b'o', b'L', b'W', b'M', b'O'];
        let nplayers = gen::count(t, max_players);
        let mut player_list = Vec::new();
        for i in 0 .. nplayers {
            player_list.push(Player {
                index: if t.draw(DATA, 4) == 0 { gen::u8_(t) } else { i as u8 },
                name: s(t, 64),
                score: gen::i32_(t),
                duration_bits: {
                    // any finite f32 bit pattern, plus the specials now and then
                    let b = gen::u32_(t);
                    match t.draw(DATA, 16) {
                        0 => f32::INFINITY.to_bits(),
                        1 => 0x7fc0_0000,
                        _ => b,
                    }
                },
                deaths: gen::u32_(t),
                money: gen::u32_(t),
            });
        }
        let nrules = gen::count(t, max_rules);
        let mut rules: Vec<(String, String)> = Vec::new();
        let mut seen = std::collections::HashSet::new();
        for i in 0 .. nrules {
            let mut k = if t.draw(DATA, 3) == 0 { gen::key_string(t, &StrOpts::plain(40)) } else { gen::word(t, 12) };
            if k == "Test" || !seen.insert(k.clone()) {
                k = format!("{k}_{i}");
                seen.insert(k.clone());
            }
            rules.push((k, s(t, 60)));
        }
        // now and then a rule name is sent twice: the later pair is the one that counts (the reply is a
        // list, the response a map)
        if rules.len() >= 2 && rules.len() < max_rules as usize && t.draw(DATA, 8) == 0 {
            let k = rules[t.draw(DATA, rules.len() as u64) as usize].0.clone();
            rules.push((k, s(t, 20)));
        }
        let (appid16, game_id) = match appid {
            Some(a) => {
                // report it through the 16-bit field if it fits, else through the game id
                if a <= 0xffff && t.draw(DATA, 2) == 0 {
                    (a as u16, (gen::u64_(t) & !0xff_ffff) | a as u64)
                } else {
                    (gen::u16_(t), (gen::u64_(t) & !0xff_ffff) | (a as u64 & 0xff_ffff))
                }
            }
            None => (gen::u16_(t), gen::u64_(t)),
        };
        let mut edf = edf;
        if let Some(a) = appid {
            // an app id above 16 bits can only be reported through the game id
            if a > 0xffff || (game_id & 0xff_ffff) as u32 == a && appid16 as u32 != a {
                edf = Some(edf.unwrap_or(0) | 0x01);
            } else if let Some(e) = edf {
                if e & 0x01 != 0 && (game_id & 0xff_ffff) as u32 != a {
                    edf = Some(e & !0x01);
                }
            }
        }
        Self {
            obsolete_info: obsolete,
            protocol: gen::u8_(t),
            name: s(t, 250),
            map: s(t, 64),
            folder: s(t, 32),
            game: s(t, 64),
            appid16,
            players: gen::u8_(t),
            max_players: gen::u8_(t),
            bots: gen::u8_(t),
            server_type: if obsolete {
                *t.pick(DATA, &[b'D', b'L', b'P'])
            } else {
                *t.pick(DATA, &types_src)
            },
            environment: if obsolete {
                *t.pick(DATA, &[b'L', b'W'])
            } else {
                *t.pick(DATA, &envs_src)
            },
            visibility: t.draw(DATA, 2) as u8,
            vac: t.draw(DATA, 2) as u8,
            ship: if ship { Some((gen::u8_(t), gen::u8_(t), gen::u8_(t))) } else { None },
            version: s(t, 32),
            edf,
            port: gen::u16_(t),
            steam_id: gen::u64_(t),
            split_id_base: match t.draw(DATA, 6) {
                0 => 7,
                1 => 0x3fff_fffe,
                2 => 0x7fff_fff0 + t.draw(DATA, 15) as u32,
                3 => 0x4000_0000 + t.draw(DATA, 0x3fff_ffff) as u32,
                _ => t.draw(DATA, 0x7fff_ffff) as u32,
            },
            tv_port: gen::u16_(t),
            tv_name: s(t, 32),
            keywords: s(t, 120),
            game_id,
            address: format!("{}.{}.{}.{}:{}", gen::u8_(t), gen::u8_(t), gen::u8_(t), gen::u8_(t), gen::u16_(t)),
            is_mod: t.draw(DATA, 2) as u8,
            mod_link: s(t, 48),
            mod_download: s(t, 48),
            mod_version: gen::u32_(t),
            mod_size: gen::u32_(t),
            mod_type: t.draw(DATA, 2) as u8,
            mod_dll: t.draw(DATA, 2) as u8,
            player_list,
            rules,
        }
    }

    /// Trim players and rules so that each reply fits the split transport's capacity
    /// (255 fragments for Source, 15 for GoldSrc).
    pub fn fit(&mut self, goldsrc: bool) {
        let cap = if goldsrc { 15 * (MTU - 9) } else { 255 * (MTU - 12) } - 8;
        self.trim_to(cap);
    }

    /// Trim players and rules until each reply (with its 4-byte header) fits `max` bytes.
    pub fn trim_to(&mut self, max: usize) {
        let per_player_extra = if self.ship.is_some() { 8 } else { 0 };
        let mut size = 4 + 2;
        let mut keep = 0;
        for p in &self.player_list {
            size += 1 + p.name.len() + 1 + 8 + per_player_extra;
            if size > max {
                break;
            }
            keep += 1;
        }
        self.player_list.truncate(keep);
        let mut size = 4 + 3;
        let mut keep = 0;
        for (k, v) in &self.rules {
            size += k.len() + v.len() + 2;
            if size > max {
                break;
            }
            keep += 1;
        }
        self.rules.truncate(keep);
    }

    /// Replace the rules by `n` rules with the shortest possible distinct keys.
    pub fn compact_rules(&mut self, n: usize) {
        const A: &[u8] = b"0123456789abcdefghijklmnopqrstuvwxyzABCDEFGHIJKLMNOPQRSTUVWXYZ";
        self.rules = (0 .. n)
            .map(|i| {
                let k: String = [A[i / 3844 % 62], A[i / 62 % 62], A[i % 62]].iter().map(|b| *b as char).collect();
                (k, String::new())
            })
            .collect();
    }

    /// The app id the server reports (what a client must compare against).
    pub fn reported_appid(&self) -> u32 {
        if self.obsolete_info {
            return 0;
        }
        match self.edf {
            Some(e) if e & 0x01 != 0 => (self.game_id & 0xff_ffff) as u32,
            _ => self.appid16 as u32,
        }
    }

    pub fn info_payload(&self) -> Vec<u8> {
        let mut o = Vec::new();
        if self.obsolete_info {
            o.push(0x6d);
            cstr(&mut o, &self.address);
            cstr(&mut o, &self.name);
            cstr(&mut o, &self.map);
            cstr(&mut o, &self.folder);
            cstr(&mut o, &self.game);
            o.push(self.players);
            o.push(self.max_players);
            o.push(self.protocol);
            o.push(self.server_type);
            o.push(self.environment);
            o.push(self.visibility);
            o.push(self.is_mod);
            if self.is_mod == 1 {
                cstr(&mut o, &self.mod_link);
                cstr(&mut o, &self.mod_download);
                o.push(0);
                o.extend_from_slice(&self.mod_version.to_le_bytes());
                o.extend_from_slice(&self.mod_size.to_le_bytes());
                o.push(self.mod_type);
                o.push(self.mod_dll);
            }
            o.push(self.vac);
            o.push(self.bots);
            return o;
        }
        o.push(0x49);
        o.push(self.protocol);
        cstr(&mut o, &self.name);
        cstr(&mut o, &self.map);
        cstr(&mut o, &self.folder);
        cstr(&mut o, &self.game);
        o.extend_from_slice(&self.appid16.to_le_bytes());
        o.push(self.players);
        o.push(self.max_players);
        o.push(self.bots);
        o.push(self.server_type);
        o.push(self.environment);
        o.push(self.visibility);
        o.push(self.vac);
        if let Some((m, w, d)) = self.ship {
            o.push(m);
            o.push(w);
            o.push(d);
        }
        cstr(&mut o, &self.version);
        if let Some(e) = self.edf {
            o.push(e);
            if e & 0x80 != 0 {
                o.extend_from_slice(&self.port.to_le_bytes());
            }
            if e & 0x10 != 0 {
                o.extend_from_slice(&self.steam_id.to_le_bytes());
            }
            if e & 0x40 != 0 {
                o.extend_from_slice(&self.tv_port.to_le_bytes());
                cstr(&mut o, &self.tv_name);
            }
            if e & 0x20 != 0 {
                cstr(&mut o, &self.keywords);
            }
            if e & 0x01 != 0 {
                o.extend_from_slice(&self.game_id.to_le_bytes());
            }
        }
        o
    }

    pub fn players_payload(&self) -> Vec<u8> {
        let mut o = vec![0x44, self.player_list.len() as u8];
        for p in &self.player_list {
            o.push(p.index);
            cstr(&mut o, &p.name);
            o.extend_from_slice(&p.score.to_le_bytes());
            o.extend_from_slice(&p.duration_bits.to_le_bytes());
        }
        if self.ship.is_some() {
            for p in &self.player_list {
                o.extend_from_slice(&p.deaths.to_le_bytes());
                o.extend_from_slice(&p.money.to_le_bytes());
            }
        }
        o
    }

    pub fn rules_payload(&self) -> Vec<u8> {
        let mut o = vec![0x45];
        o.extend_from_slice(&(self.rules.len() as u16).to_le_bytes());
        for (k, v) in &self.rules {
            cstr(&mut o, k);
            cstr(&mut o, v);
        }
        o
    }

    pub fn expected_info(&self) -> ServerInfo {
        let st = |b: u8| {
            match b.to_ascii_lowercase() {
                b'd' => valve::Server::Dedicated,
                b'l' => valve::Server::NonDedicated,
                _ => valve::Server::TV,
            }
        };
        let env = |b: u8| {
            match b.to_ascii_lowercase() {
                b'l' => Environment::Linux,
                b'w' => Environment::Windows,
                _ => Environment::Mac,
            }
        };
        if self.obsolete_info {
            return ServerInfo {
                protocol_version: self.protocol,
                name: self.name.clone(),
                map: self.map.clone(),
                folder: self.folder.clone(),
                game_mode: self.game.clone(),
                appid: 0,
                players_online: self.players,
                players_maximum: self.max_players,
                players_bots: self.bots,
                server_type: st(self.server_type),
                environment_type: env(self.environment),
                has_password: self.visibility == 1,
                vac_secured: self.vac == 1,
                the_ship: None,
                game_version: String::new(),
                extra_data: None,
                is_mod: self.is_mod == 1,
                mod_data: if self.is_mod == 1 {
                    Some(ModData {
                        link: self.mod_link.clone(),
                        download_link: self.mod_download.clone(),
                        version: self.mod_version,
                        size: self.mod_size,
                        multiplayer_only: self.mod_type == 1,
                        has_own_dll: self.mod_dll == 1,
                    })
                } else {
                    None
                },
            };
        }
        let e = self.edf;
        let has = |bit: u8| e.map_or(false, |v| v & bit != 0);
        ServerInfo {
            protocol_version: self.protocol,
            name: self.name.clone(),
            map: self.map.clone(),
            folder: self.folder.clone(),
            game_mode: self.game.clone(),
            appid: self.reported_appid(),
            players_online: self.players,
            players_maximum: self.max_players,
            players_bots: self.bots,
            server_type: st(self.server_type),
            environment_type: env(self.environment),
            has_password: self.visibility == 1,
            vac_secured: self.vac == 1,
            the_ship: self.ship.map(|(m, w, d)| TheShip { mode: m, witnesses: w, duration: d }),
            game_version: self.version.clone(),
            extra_data: e.map(|_| {
                ExtraData {
                    port: has(0x80).then_some(self.port),
                    steam_id: has(0x10).then_some(self.steam_id),
                    tv_port: has(0x40).then_some(self.tv_port),
                    tv_name: has(0x40).then(|| self.tv_name.clone()),
                    keywords: has(0x20).then(|| self.keywords.clone()),
                    game_id: has(0x01).then_some(self.game_id),
                }
            }),
            is_mod: false,
            mod_data: None,
        }
    }

    pub fn expected_players(&self) -> Vec<ServerPlayer> {
        self.player_list
            .iter()
            .map(|p| {
                ServerPlayer {
                    name: p.name.clone(),
                    score: p.score,
                    duration: f32::from_bits(p.duration_bits),
                    deaths: self.ship.map(|_| p.deaths),
                    money: self.ship.map(|_| p.money),
                }
            })
            .collect()
    }

    pub fn expected_rules(&self) -> HashMap<String, String> { self.rules.iter().cloned().collect() }
}

/// The representation is part of what is returned: a reply that carries the extra-data flag byte gives
/// `Some(ExtraData)` (every member `None` when no flag is set), a reply that ends before the byte gives
/// `None`. (An earlier version of the checks treated the two as the same information.)
pub fn normalise_info(i: ServerInfo) -> ServerInfo { i }

// ---------------------------------------------------------------- transport

#[derive(Clone, Copy, Debug, PartialEq, Eq)]
pub enum Split {
    /// one datagram (only legal if it fits the MTU)
    Single,
    /// Source split: `with_size` false models protocol 7 of apps 215/17550/17700/240
    Source { with_size: bool },
    /// Source split of the bzip2-compressed reply (id bit 31 set; fragment 0 carries the
    /// decompressed size and CRC32)
    SourceCompressed,
    GoldSrc,
}

/// A reply with its pre-computed bzip2 form (python-built pool, see tools/bz2pool.py).
#[derive(Clone, Debug)]
pub struct Compressed {
    pub bz2: Vec<u8>,
    pub size: u32,
    pub crc32: u32,
}

#[derive(serde::Deserialize)]
struct PoolEntry {
    kind: String,
    #[serde(default)]
    rules: Vec<(String, String)>,
    #[serde(default)]
    players: Vec<(u8, String, i32, u32)>,
    payload_hex: String,
    bz2_hex: String,
    crc32: u32,
}

fn unhex(s: &str) -> Vec<u8> { (0 .. s.len() / 2).map(|i| u8::from_str_radix(&s[2 * i .. 2 * i + 2], 16).unwrap_or(0)).collect() }

fn pool() -> &'static Vec<PoolEntry> {
    static POOL: std::sync::OnceLock<Vec<PoolEntry>> = std::sync::OnceLock::new();
    POOL.get_or_init(|| serde_json::from_str(include_str!("../../data/bz2pool.json")).expect("bz2pool.json"))
}

impl ValveState {
    /// Replace the rules (or the player list) by a pool entry and return its compressed reply.
    /// The reply encoded by this model must be byte-identical to the one python compressed.
    pub fn adopt_pool_entry(&mut self, t: &mut Tape, want_rules: bool) -> Option<Compressed> {
        let candidates: Vec<&PoolEntry> = pool().iter().filter(|e| (e.kind == "rules") == want_rules).collect();
        let e = candidates[t.draw(DATA, candidates.len() as u64) as usize];
        let mut whole = vec![0xff, 0xff, 0xff, 0xff];
        if want_rules {
            self.rules = e.rules.clone();
            whole.extend(self.rules_payload());
        } else {
            if self.ship.is_some() {
                return None;
            }
            self.player_list = e.players.iter().map(|(i, n, s, d)| Player { index: *i, name: n.clone(), score: *s, duration_bits: *d, deaths: 0, money: 0 }).collect();
            whole.extend(self.players_payload());
        }
        if whole != unhex(&e.payload_hex) {
            eprintln!("HARNESS-ERROR bz2 pool entry does not match the model's encoding of the same state");
            std::process::exit(2);
        }
        Some(Compressed { bz2: unhex(&e.bz2_hex), size: whole.len() as u32, crc32: e.crc32 })
    }
}

#[derive(Clone, Debug)]
pub struct KindEnc {
    pub challenge_rounds: u8,
    pub split: Split,
    /// fragment payload sizes are derived from these cut fractions (permille)
    pub frags: usize,
    /// arrival order of the fragments (indices into 0..frags) and an optional duplicate
    pub order: Option<Vec<usize>>,
    pub dup: Option<(usize, usize)>,
}

impl KindEnc {
    pub fn simple() -> Self {
        Self {
            challenge_rounds: 0,
            split: Split::Single,
            frags: 1,
            order: None,
            dup: None,
        }
    }
}

#[derive(Clone, Copy, Debug, PartialEq, Eq)]
pub enum Outcome {
    Valid,
    Silent,
    Malformed,
    ChallengeThenSilent,
    /// only the first datagram of a split reply arrives
    Partial,
}

#[derive(Clone, Copy, Debug, PartialEq, Eq, Hash, PartialOrd, Ord)]
pub enum Kind {
    Info,
    Players,
    Rules,
    Ffow,
}

impl Kind {
    pub fn from_byte(b: u8) -> Option<Self> {
        match b {
            0x54 => Some(Kind::Info),
            0x55 => Some(Kind::Players),
            0x56 => Some(Kind::Rules),
            0x46 => Some(Kind::Ffow),
            _ => None,
        }
    }

    pub fn idx(self) -> usize {
        match self {
            Kind::Info => 0,
            Kind::Players => 1,
            Kind::Rules => 2,
            Kind::Ffow => 3,
        }
    }
}

pub struct ValveServer {
    pub st: ValveState,
    pub enc: [KindEnc; 4],
    /// per kind: outcome of the i-th attempt (default Valid)
    pub outcomes: [Vec<Outcome>; 4],
    pub goldsrc_transport: bool,
    /// Source split headers carry no size field (protocol 7 of apps 215/17550/17700/240)
    pub split_no_size: bool,
    pub ffow_payload: Vec<u8>,
    /// transport actually used for each answer (kind, class)
    pub used_transport: Vec<(Kind, &'static str)>,
    // runtime
    pub attempts: [usize; 4],
    pending: [Option<(Vec<u8>, u8, bool)>; 4], // (challenge, rounds still to issue, swallow)
    pub issued: Vec<(Kind, [u8; 4])>,
    pub echoed_wrong: u32,
    pub requests: Vec<(Kind, bool)>,
    pub unknown_requests: u32,
    pub split_id: u32,
    /// the next answer loses everything after its first datagram
    pub partial_next: bool,
    pub fixed_challenges: Vec<[u8; 4]>,
    /// a wrong echo is answered with the challenge that is still awaited (one challenge per client address for a
    /// while, as real servers keep it) instead of a fresh one
    pub stable_challenge: bool,
    /// pre-computed reply datagrams per kind (used instead of encoding at answer time)
    pub fixed_frags: [Option<Vec<Vec<u8>>>; 4],
    /// compressed form of the reply of a kind (used when its transport is SourceCompressed)
    pub compressed: [Option<Compressed>; 4],
    pub current_kind: usize,
    last_transport: &'static str,
}

impl ValveServer {
    pub fn new(st: ValveState) -> Self {
        Self {
            split_id: st.split_id_base,
            st,
            enc: [KindEnc::simple(), KindEnc::simple(), KindEnc::simple(), KindEnc::simple()],
            outcomes: [Vec::new(), Vec::new(), Vec::new(), Vec::new()],
            goldsrc_transport: false,
            split_no_size: false,
            ffow_payload: Vec::new(),
            used_transport: Vec::new(),
            attempts: [0; 4],
            pending: [None, None, None, None],
            issued: Vec::new(),
            echoed_wrong: 0,
            requests: Vec::new(),
            unknown_requests: 0,
            partial_next: false,
            fixed_challenges: Vec::new(),
            stable_challenge: false,
            fixed_frags: [None, None, None, None],
            compressed: [None, None, None, None],
            current_kind: 0,
            last_transport: "single",
        }
    }

    fn next_challenge(&mut self, cx: &mut Cx) -> [u8; 4] {
        if !self.fixed_challenges.is_empty() {
            return self.fixed_challenges.remove(0);
        }
        // stratified by byte class so that 00 / 0A / 41 / FF bytes are common
        let mut c = [0u8; 4];
        for b in &mut c {
            *b = match cx.draw(6) {
                0 => 0x00,
                1 => 0x0a,
                2 => 0x41,
                3 => 0xff,
                _ => cx.draw(256) as u8,
            };
        }
        if c == [0xff; 4] {
            c[3] = 0xfe; // FFFFFFFF means "no challenge yet"
        }
        c
    }

    pub fn payload_for(&self, kind: Kind) -> Vec<u8> {
        match kind {
            Kind::Info => self.st.info_payload(),
            Kind::Players => self.st.players_payload(),
            Kind::Rules => self.st.rules_payload(),
            Kind::Ffow => self.ffow_payload.clone(),
        }
    }

    /// The datagrams that carry `payload` (kind byte first) under `enc`.
    pub fn encode(&mut self, payload: &[u8], enc: &KindEnc, draw: &mut dyn FnMut(u64) -> u64) -> Vec<Vec<u8>> {
        let mut whole = vec![0xff, 0xff, 0xff, 0xff];
        whole.extend_from_slice(payload);
        let comp = match enc.split {
            Split::SourceCompressed => self.compressed[self.current_kind].clone(),
            _ => None,
        };
        if let Some(c) = &comp {
            whole = c.bz2.clone();
        }
        let split = match enc.split {
            Split::SourceCompressed if comp.is_none() => Split::Source { with_size: !self.split_no_size },
            Split::Single if whole.len() > MTU => {
                if self.goldsrc_transport {
                    Split::GoldSrc
                } else {
                    Split::Source { with_size: !self.split_no_size }
                }
            }
            Split::Source { .. } => Split::Source { with_size: !self.split_no_size },
            s => s,
        };
        self.last_transport = match split {
            Split::Single => "single",
            Split::Source { with_size: true } => "split-source",
            Split::Source { with_size: false } => "split-source-nosize",
            Split::SourceCompressed => "split-compressed",
            Split::GoldSrc => "split-goldsrc",
        };
        if split == Split::Single {
            return vec![whole];
        }
        let header = match split {
            Split::SourceCompressed => 20,
            Split::Source { with_size: true } => 12,
            Split::Source { with_size: false } => 10,
            _ => 9,
        };
        let max_chunk = MTU - header;
        let max_frags = if split == Split::GoldSrc { 15 } else { 255 };
        let min_frags = whole.len().div_ceil(max_chunk).max(1);
        // (a compressed answer small enough may travel in one split packet: enc.frags == 1 asks for that)
        let floor = if split == Split::SourceCompressed && enc.frags == 1 { 1 } else { 2 };
        let n = enc.frags.clamp(min_frags.max(floor).min(max_frags), max_frags).min(whole.len().max(floor));
        // random cut points, each chunk non-empty and <= max_chunk
        let mut cuts: Vec<usize> = Vec::new();
        let mut pos = 0usize;
        for i in 0 .. n {
            let remaining_frags = n - i;
            let remaining = whole.len() - pos;
            let len = if remaining_frags == 1 {
                remaining
            } else {
                let min_len = remaining.saturating_sub((remaining_frags - 1) * max_chunk).max(1);
                let max_len = (remaining - (remaining_frags - 1)).min(max_chunk).max(min_len);
                min_len + draw((max_len - min_len + 1) as u64) as usize
            };
            cuts.push(len);
            pos += len;
        }
        self.split_id = self.split_id.wrapping_add(1) & 0x7fff_ffff;
        let id = if split == Split::SourceCompressed { self.split_id | 0x8000_0000 } else { self.split_id };
        let mut out = Vec::new();
        let mut pos = 0;
        for (i, len) in cuts.iter().enumerate() {
            let mut d = vec![0xfe, 0xff, 0xff, 0xff];
            d.extend_from_slice(&id.to_le_bytes());
            match split {
                Split::Source { with_size } => {
                    d.push(n as u8);
                    d.push(i as u8);
                    if with_size {
                        d.extend_from_slice(&(1248u16).to_le_bytes());
                    }
                }
                Split::SourceCompressed => {
                    d.push(n as u8);
                    d.push(i as u8);
                    d.extend_from_slice(&(1248u16).to_le_bytes());
                    if i == 0 {
                        let c = comp.as_ref().unwrap();
                        d.extend_from_slice(&c.size.to_le_bytes());
                        d.extend_from_slice(&c.crc32.to_le_bytes());
                    }
                }
                _ => d.push(((i as u8) << 4) | (n as u8 & 0x0f)),
            }
            d.extend_from_slice(&whole[pos .. pos + len]);
            pos += len;
            out.push(d);
        }
        out
    }

    fn malformed(&self, cx: &mut Cx, kind: Kind) -> Vec<u8> {
        match cx.draw(5) {
            0 => vec![0xff, 0xff, 0xff],
            4 if kind == Kind::Players && self.payload_for(kind).get(1).map_or(false, |c| *c < 250) && self.payload_for(kind).len() < 1200 => {
                // the valid players reply, announcing more entries than it carries (it ends at an entry boundary)
                let mut d = vec![0xff, 0xff, 0xff, 0xff];
                d.extend_from_slice(&self.payload_for(kind));
                d[5] += 1 + cx.draw(3) as u8;
                d
            }
            3 if kind != Kind::Ffow => {
                // a complete, valid reply - to another kind of request
                let other = match kind {
                    Kind::Info => Kind::Players,
                    Kind::Players => Kind::Rules,
                    _ => Kind::Players,
                };
                let mut d = vec![0xff, 0xff, 0xff, 0xff];
                d.extend_from_slice(&self.payload_for(other));
                d.truncate(1200);
                d
            }
            1 => {
                // right header, mandatory fields missing
                let k = match kind {
                    Kind::Info => 0x49,
                    Kind::Players => 0x44,
                    Kind::Rules => 0x45,
                    Kind::Ffow => 0x46,
                };
                vec![0xff, 0xff, 0xff, 0xff, k]
            }
            _ => vec![0xfe],
        }
    }

    fn answer(&mut self, cx: &mut Cx, from: SocketAddr, kind: Kind) {
        let payload = self.payload_for(kind);
        let enc = self.enc[kind.idx()].clone();
        self.current_kind = kind.idx();
        let frags = match &self.fixed_frags[kind.idx()] {
            Some(f) => f.clone(),
            None => {
                let mut d = |b: u64| cx.draw(b);
                self.encode(&payload, &enc, &mut d)
            }
        };
        self.used_transport.push((kind, self.last_transport));
        if self.last_transport == "split-compressed" {
            cx.w.stats.probe("compressed_split_reply");
        }
        if frags.len() > 1 {
            cx.w.stats.probe("split_reply");
            if frags.len() >= 6 {
                cx.w.stats.probe("split_6_or_more_fragments");
            }
        }
        let mut seq: Vec<usize> = match &enc.order {
            Some(o) if o.len() == frags.len() => o.clone(),
            _ => (0 .. frags.len()).collect(),
        };
        if let Some((frag, at)) = enc.dup {
            if frag < frags.len() {
                seq.insert(at.min(seq.len()), frag);
            }
        }
        if std::mem::take(&mut self.partial_next) {
            // only part of a split answer gets through: mostly its first datagram, else all but one that
            // is left out at random (a single datagram: nothing does)
            if frags.len() > 1 {
                if cx.draw(2) == 0 {
                    seq.truncate(1);
                } else {
                    let left_out = cx.draw(frags.len() as u64) as usize;
                    seq.retain(|i| *i != left_out);
                }
            } else {
                seq.clear();
            }
        }
        for (rank, i) in seq.iter().enumerate() {
            cx.udp_send_after(from, frags[*i].clone(), rank as u64 * 10_000);
        }
    }
}

impl Server for ValveServer {
    fn on_udp(&mut self, cx: &mut Cx, from: SocketAddr, data: &[u8]) {
        if data.len() < 5 || data[.. 4] != [0xff; 4] {
            self.unknown_requests += 1;
            return;
        }
        let Some(kind) = Kind::from_byte(data[4]) else {
            self.unknown_requests += 1;
            return;
        };
        let body = &data[5 ..];
        // Which challenge (if any) does the request carry?
        let carried: Option<[u8; 4]> = match kind {
            Kind::Info => {
                let q = b"Source Engine Query\0";
                if body.len() == q.len() + 4 && &body[.. q.len()] == q {
                    Some(body[q.len() ..].try_into().unwrap())
                } else if body == q {
                    None
                } else {
                    self.unknown_requests += 1;
                    return;
                }
            }
            Kind::Ffow => {
                if body == b"LSQ" {
                    None
                } else if body.len() == 4 {
                    Some(body.try_into().unwrap())
                } else {
                    self.unknown_requests += 1;
                    return;
                }
            }
            _ => {
                if body.len() != 4 {
                    self.unknown_requests += 1;
                    return;
                }
                // FF FF FF FF asks for a challenge - unless that very value is the challenge this server
                // handed out and is waiting to see again
                let awaited_ff = matches!(&self.pending[kind.idx()], Some((c, _, _)) if c.as_slice() == [0xff; 4]);
                if body == [0xff; 4] && !awaited_ff {
                    None
                } else {
                    Some(body.try_into().unwrap())
                }
            }
        };
        let k = kind.idx();
        self.requests.push((kind, carried.is_some()));
        match carried {
            None => {
                // a fresh attempt
                let n = self.attempts[k];
                self.attempts[k] += 1;
                let outcome = self.outcomes[k].get(n).copied().unwrap_or(Outcome::Valid);
                match outcome {
                    Outcome::Silent => {
                        self.pending[k] = None;
                    }
                    Outcome::Malformed => {
                        self.pending[k] = None;
                        let m = self.malformed(cx, kind);
                        cx.udp_send(from, m);
                    }
                    Outcome::Partial => {
                        self.pending[k] = None;
                        self.partial_next = true;
                        self.answer(cx, from, kind);
                    }
                    Outcome::ChallengeThenSilent => {
                        let c = self.next_challenge(cx);
                        self.issued.push((kind, c));
                        self.pending[k] = Some((c.to_vec(), 0, true));
                        let mut d = vec![0xff, 0xff, 0xff, 0xff, 0x41];
                        d.extend_from_slice(&c);
                        cx.udp_send(from, d);
                    }
                    Outcome::Valid => {
                        let rounds = self.enc[k].challenge_rounds;
                        if rounds == 0 {
                            self.pending[k] = None;
                            self.answer(cx, from, kind);
                        } else {
                            let c = self.next_challenge(cx);
                            self.issued.push((kind, c));
                            self.pending[k] = Some((c.to_vec(), rounds - 1, false));
                            let mut d = vec![0xff, 0xff, 0xff, 0xff, 0x41];
                            d.extend_from_slice(&c);
                            cx.udp_send(from, d);
                            cx.w.stats.probe("challenge_issued");
                        }
                    }
                }
            }
            Some(c) => {
                match self.pending[k].take() {
                    Some((exp, _, true)) => {
                        if exp != c {
                            self.echoed_wrong += 1;
                        }
                        // swallow: stay silent
                    }
                    Some((exp, left, false)) => {
                        if exp != c {
                            self.echoed_wrong += 1;
                            // a wrong echo gets a fresh challenge, as real servers do (or, in the stable mode,
                            // the one that is still awaited)
                            let nc = if self.stable_challenge { <[u8; 4]>::try_from(exp.as_slice()).unwrap_or([0; 4]) } else { self.next_challenge(cx) };
                            self.issued.push((kind, nc));
                            self.pending[k] = Some((nc.to_vec(), left, false));
                            let mut d = vec![0xff, 0xff, 0xff, 0xff, 0x41];
                            d.extend_from_slice(&nc);
                            cx.udp_send(from, d);
                        } else if left > 0 {
                            let nc = self.next_challenge(cx);
                            self.issued.push((kind, nc));
                            self.pending[k] = Some((nc.to_vec(), left - 1, false));
                            let mut d = vec![0xff, 0xff, 0xff, 0xff, 0x41];
                            d.extend_from_slice(&nc);
                            cx.udp_send(from, d);
                            if left >= 2 {
                                cx.w.stats.probe("three_challenge_rounds");
                            }
                        } else {
                            self.answer(cx, from, kind);
                        }
                    }
                    None => {
                        // a challenge nobody issued
                        self.echoed_wrong += 1;
                    }
                }
            }
        }
    }

    fn as_any(&mut self) -> &mut dyn std::any::Any { self }
}

/// Draw a transport encoding for one request kind.
pub fn gen_enc(t: &mut Tape, goldsrc: bool, allow_split: bool) -> KindEnc {
    let challenge_rounds = match t.draw(CFG, 6) {
        0 | 1 => 0,
        2 | 3 => 1,
        4 => 2,
        _ => 3,
    };
    let split = if !allow_split {
        Split::Single
    } else {
        match t.draw(CFG, 4) {
            0 | 1 => Split::Single,
            _ => {
                if goldsrc {
                    Split::GoldSrc
                } else {
                    Split::Source { with_size: true }
                }
            }
        }
    };
    let frags = 2 + t.draw(CFG, 7) as usize;
    KindEnc {
        challenge_rounds,
        split,
        frags,
        order: None,
        dup: None,
    }
}

/// The response `valve::query` must return for this state when every request
/// is answered, under the given engine and gather settings.
pub fn expected_response(st: &ValveState, engine: &Engine, gs: &GatheringSettings) -> valve::Response {
    let mut rules = st.expected_rules();
    if *engine == Engine::new(632_360) {
        rules.remove("Test");
    }
    valve::Response {
        info: st.expected_info(),
        players: (gs.players != GatherToggle::Skip).then(|| st.expected_players()),
        rules: (gs.rules != GatherToggle::Skip).then_some(rules),
    }
}

pub fn normalise_response(mut r: valve::Response) -> valve::Response {
    r.info = normalise_info(r.info);
    r
}

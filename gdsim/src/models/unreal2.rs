//! Reference model of an Unreal 2 query server. String format and colour
//! stripping follow the node-gamedig reference reader (`readUnrealString`).

use crate::gen;
use crate::models::gamespy::Outcome;
use crate::tape::{Tape, DATA};
use crate::world::{Cx, Server};
use serde_json::{json, Value};
use std::collections::{BTreeMap, BTreeSet};
use std::net::SocketAddr;

/// A string as the server holds it: a sequence of code points with embedded
/// colour escapes / control codes, and the encoding it will use on the wire.
#[derive(Clone, Debug)]
pub struct UStr {
    /// raw code units as sent (Latin-1 bytes or UCS-2 units), without the trailing NUL
    pub units: Vec<u16>,
    pub ucs2: bool,
    /// UCS-2 only: the stray 0x01 byte some games insert after the length byte
    pub stray_one: bool,
    /// include the trailing NUL in the counted length (normal) or not
    pub trailing_nul: bool,
}

impl UStr {
    /// What a client must return: colour escapes (ESC + 3 units) and the control
    /// codes 0x00-0x1a removed, nothing else changed.
    pub fn visible(&self) -> String {
        let mut out = String::new();
        let mut skip = 0;
        for u in &self.units {
            if skip > 0 {
                skip -= 1;
                continue;
            }
            if *u == 0x1b {
                skip = 3;
                continue;
            }
            if *u <= 0x1a {
                continue;
            }
            out.push(char::from_u32(*u as u32).unwrap_or('\u{fffd}'));
        }
        out
    }

    pub fn encode(&self, o: &mut Vec<u8>) {
        let n = self.units.len() + usize::from(self.trailing_nul);
        if self.ucs2 {
            o.push(0x80 | n as u8);
            if self.stray_one {
                o.push(1);
            }
            for u in &self.units {
                o.extend_from_slice(&u.to_le_bytes());
            }
            if self.trailing_nul {
                o.extend_from_slice(&[0, 0]);
            }
        } else {
            o.push(n as u8);
            for u in &self.units {
                o.push(*u as u8);
            }
            if self.trailing_nul {
                o.push(0);
            }
        }
    }

    pub fn plain(s: &str) -> Self {
        Self { units: s.bytes().map(u16::from).collect(), ucs2: false, stray_one: false, trailing_nul: true }
    }
}

/// Generate a string with exactly `units` code units (`None`: draw the length).
pub fn gen_ustr(t: &mut Tape, ucs2: bool, units: Option<usize>, max: usize) -> UStr {
    let n = units.unwrap_or_else(|| {
        match t.draw(DATA, 6) {
            0 => 0,
            1 ..= 3 => t.draw(DATA, 16) as usize,
            4 => t.draw(DATA, 40) as usize,
            _ => t.draw(DATA, max as u64 + 1) as usize,
        }
    });
    let n = n.min(max);
    let mut v: Vec<u16> = Vec::with_capacity(n);
    while v.len() < n {
        let k = t.draw(DATA, 24);
        if k == 0 && v.len() + 4 <= n {
            // a colour escape: ESC r g b (non-zero components)
            v.push(0x1b);
            for _ in 0 .. 3 {
                v.push(1 + t.draw(DATA, 255) as u16);
            }
        } else if k == 1 {
            v.push(1 + t.draw(DATA, 0x1a) as u16); // control code 0x01-0x1a
        } else if ucs2 && k >= 20 {
            // any BMP scalar except NUL and surrogates
            let mut c = 0x100 + t.draw(DATA, 0xfe00) as u16;
            if (0xd800 ..= 0xdfff).contains(&c) {
                c = 0x4e2d;
            }
            v.push(c);
        } else if !ucs2 && k >= 21 {
            v.push(0xa0 + t.draw(DATA, 0x60) as u16); // upper Latin-1
        } else {
            v.push(0x20 + t.draw(DATA, 0x5f) as u16); // printable ASCII
        }
    }
    let mut stray_one = ucs2 && t.draw(DATA, 4) == 0;
    if ucs2 && !stray_one && v.first().map_or(false, |u| u & 0xff == 1) {
        // would be indistinguishable from the stray byte: make it explicit
        stray_one = true;
    }
    if ucs2 && n == 0 {
        stray_one = false;
    }
    // an empty UCS-2 string is always sent with its NUL unit (0x81 00 00): a bare 0x80 followed by a
    // byte 0x01 of the next field would be indistinguishable from the stray-0x01 quirk
    // (a Latin-1 string is now and then sent without its terminator, the length byte counting the text only)
    let trailing_nul = if ucs2 { true } else if n > 0 { t.draw(DATA, 8) != 0 } else { t.draw(DATA, 2) == 0 };
    UStr { units: v, ucs2, stray_one, trailing_nul }
}

fn gen_any(t: &mut Tape, max_latin: usize) -> UStr {
    let ucs2 = t.draw(DATA, 3) == 0;
    gen_ustr(t, ucs2, None, if ucs2 { 126 } else { max_latin })
}

#[derive(Clone, Debug)]
pub struct UPlayer {
    pub id: u32,
    pub name: UStr,
    pub ping: u32,
    pub score: i32,
    pub stats_id: u32,
}

#[derive(Clone, Debug)]
pub struct Unreal2State {
    pub server_id: u32,
    pub ip: UStr,
    pub game_port: u32,
    pub query_port: u32,
    pub name: UStr,
    pub map: UStr,
    pub game_type: UStr,
    pub num_players: u32,
    pub max_players: u32,
    pub tail: bool,
    pub rules: Vec<(UStr, UStr)>,
    pub players: Vec<UPlayer>,
}

impl Unreal2State {
    pub fn generate(t: &mut Tape, max_players: u64) -> Self {
        let np = gen::count(t, max_players);
        let players: Vec<UPlayer> = (0 .. np)
            .map(|_| {
                UPlayer {
                    id: gen::u32_(t),
                    name: gen_any(t, 60),
                    ping: if t.draw(DATA, 3) == 0 { 0 } else { gen::u32_(t) },
                    score: gen::i32_(t),
                    stats_id: gen::u32_(t),
                }
            })
            .collect();
        let nr = gen::count(t, 40);
        let mut rules = Vec::new();
        for _ in 0 .. nr {
            let key = match t.draw(DATA, 6) {
                0 => UStr::plain("Mutator"),
                1 => UStr::plain(*t.pick(DATA, &["mutator", "MUTATOR", "MutatoR", "mUTATOR"])),
                2 => UStr::plain("GamePassword"),
                3 => UStr::plain("RepeatedKey"),
                _ => {
                    let mut k = if gen::tame_keys() { UStr::plain(&gen::word(t, 12)) } else { gen_any(t, 30) };
                    if k.visible().eq_ignore_ascii_case("mutator") || k.visible() == "GamePassword" {
                        k = UStr::plain("other");
                    }
                    k
                }
            };
            let value = if key.visible() == "GamePassword" {
                UStr::plain(*t.pick(DATA, &["True", "False", "true", "x"]))
            } else {
                gen_any(t, 60)
            };
            rules.push((key, value));
        }
        Self {
            server_id: gen::u32_(t),
            ip: UStr::plain(&format!("{}.{}.{}.{}", gen::u8_(t), gen::u8_(t), gen::u8_(t), gen::u8_(t))),
            game_port: gen::u32_(t),
            query_port: gen::u32_(t),
            name: gen_any(t, 126),
            map: gen_any(t, 60),
            game_type: gen_any(t, 30),
            // the listed count, so that the player loop terminates by count in the common case
            num_players: match t.draw(DATA, 4) {
                0 => gen::u32_(t),
                _ => players.len() as u32,
            },
            max_players: gen::u32_(t),
            tail: t.draw(DATA, 2) == 1,
            rules,
            players,
        }
    }

    pub fn info_datagram(&self) -> Vec<u8> {
        let mut o = vec![0x80, 0, 0, 0, 0];
        o.extend_from_slice(&self.server_id.to_le_bytes());
        self.ip.encode(&mut o);
        o.extend_from_slice(&self.game_port.to_le_bytes());
        o.extend_from_slice(&self.query_port.to_le_bytes());
        self.name.encode(&mut o);
        self.map.encode(&mut o);
        self.game_type.encode(&mut o);
        o.extend_from_slice(&self.num_players.to_le_bytes());
        o.extend_from_slice(&self.max_players.to_le_bytes());
        if self.tail {
            o.extend_from_slice(&55u32.to_le_bytes());
            o.extend_from_slice(&0u32.to_le_bytes());
            UStr::plain("1").encode(&mut o);
        }
        o
    }

    /// Entries (already encoded), to be packed into datagrams.
    fn rule_entries(&self) -> Vec<Vec<u8>> {
        self.rules
            .iter()
            .map(|(k, v)| {
                let mut o = Vec::new();
                k.encode(&mut o);
                v.encode(&mut o);
                o
            })
            .collect()
    }

    fn player_entries(&self) -> Vec<Vec<u8>> {
        self.players
            .iter()
            .map(|p| {
                let mut o = Vec::new();
                o.extend_from_slice(&p.id.to_le_bytes());
                p.name.encode(&mut o);
                o.extend_from_slice(&p.ping.to_le_bytes());
                o.extend_from_slice(&p.score.to_le_bytes());
                o.extend_from_slice(&p.stats_id.to_le_bytes());
                o
            })
            .collect()
    }

    /// Pack entries into `want` datagrams (more if the 1000-byte budget demands).
    pub fn pack(kind: u8, entries: &[Vec<u8>], want: usize, t: &mut Tape) -> Vec<Vec<u8>> {
        let mut out: Vec<Vec<u8>> = Vec::new();
        let want = want.clamp(1, entries.len().max(1));
        let mut cuts: Vec<usize> = (0 .. want - 1).map(|_| 1 + t.draw(DATA, entries.len().max(2) as u64 - 1) as usize).collect();
        cuts.sort();
        cuts.dedup();
        let mut cur = vec![0x80, 0, 0, 0, kind];
        for (i, e) in entries.iter().enumerate() {
            if (cuts.contains(&i) || cur.len() + e.len() > 1000) && cur.len() > 5 {
                out.push(std::mem::replace(&mut cur, vec![0x80, 0, 0, 0, kind]));
            }
            cur.extend_from_slice(e);
        }
        out.push(cur);
        out
    }

    pub fn rules_datagrams(&self, want: usize, t: &mut Tape) -> Vec<Vec<u8>> { Self::pack(1, &self.rule_entries(), want, t) }

    pub fn players_datagrams(&self, want: usize, t: &mut Tape) -> Vec<Vec<u8>> { Self::pack(2, &self.player_entries(), want, t) }

    /// Expected response as canonical JSON (lists sorted: the protocol carries no order).
    pub fn expected(&self, with_rules: bool, with_players: bool) -> Value {
        let mut mutators: BTreeSet<String> = BTreeSet::new();
        let mut rules: BTreeMap<String, Vec<String>> = BTreeMap::new();
        if with_rules {
            for (k, v) in &self.rules {
                let key = k.visible();
                if key.eq_ignore_ascii_case("mutator") {
                    mutators.insert(v.visible());
                } else {
                    rules.entry(key).or_default().push(v.visible());
                }
            }
        }
        let password = rules.get("GamePassword").map_or(false, |v| v.concat().to_lowercase() == "true");
        for v in rules.values_mut() {
            v.sort();
        }
        let pj = |p: &UPlayer| json!({"id": p.id, "name": p.name.visible(), "ping": p.ping, "score": p.score, "stats_id": p.stats_id});
        let mut players: Vec<Value> = Vec::new();
        let mut bots: Vec<Value> = Vec::new();
        if with_players {
            for p in &self.players {
                if p.ping == 0 {
                    bots.push(pj(p));
                } else {
                    players.push(pj(p));
                }
            }
        }
        let key = |v: &Value| v.to_string();
        players.sort_by_key(key);
        bots.sort_by_key(key);
        json!({
            "server_info": {
                "server_id": self.server_id,
                "ip": self.ip.visible(),
                "game_port": self.game_port,
                "query_port": self.query_port,
                "name": self.name.visible(),
                "map": self.map.visible(),
                "game_type": self.game_type.visible(),
                "num_players": self.num_players,
                "max_players": self.max_players,
                "password": password,
            },
            "mutators_and_rules": {"mutators": mutators, "rules": rules},
            "players": {"players": players, "bots": bots},
        })
    }
}

/// Canonicalise an observed `unreal2::Response` JSON the same way.
pub fn canonicalise(v: &mut Value) {
    if let Some(m) = v.pointer_mut("/mutators_and_rules/mutators").and_then(Value::as_array_mut) {
        m.sort_by_key(|x| x.to_string());
    }
    if let Some(r) = v.pointer_mut("/mutators_and_rules/rules").and_then(Value::as_object_mut) {
        for (_, vals) in r.iter_mut() {
            if let Some(a) = vals.as_array_mut() {
                a.sort_by_key(|x| x.to_string());
            }
        }
    }
    for p in ["/players/players", "/players/bots"] {
        if let Some(a) = v.pointer_mut(p).and_then(Value::as_array_mut) {
            a.sort_by_key(|x| x.to_string());
        }
    }
}

pub struct Unreal2Server {
    pub info: Vec<u8>,
    pub rules: Vec<Vec<u8>>,
    pub players: Vec<Vec<u8>>,
    pub order: [Option<Vec<usize>>; 3],
    pub dup: [Option<(usize, usize)>; 3],
    pub outcomes: [Vec<Outcome>; 3],
    pub attempts: [usize; 3],
    pub requests: Vec<Vec<u8>>,
}

impl Unreal2Server {
    pub fn new(info: Vec<u8>, rules: Vec<Vec<u8>>, players: Vec<Vec<u8>>) -> Self {
        Self {
            info,
            rules,
            players,
            order: [None, None, None],
            dup: [None, None, None],
            outcomes: [Vec::new(), Vec::new(), Vec::new()],
            attempts: [0; 3],
            requests: Vec::new(),
        }
    }
}

impl Server for Unreal2Server {
    fn on_udp(&mut self, cx: &mut Cx, from: SocketAddr, data: &[u8]) {
        self.requests.push(data.to_vec());
        if data.len() != 5 || data[.. 4] != [0x79, 0, 0, 0] || data[4] > 2 {
            return;
        }
        let k = data[4] as usize;
        let n = self.attempts[k];
        self.attempts[k] += 1;
        match self.outcomes[k].get(n).copied().unwrap_or(Outcome::Valid) {
            Outcome::Silent | Outcome::Partial => {}
            Outcome::Malformed => {
                let v = cx.draw(4);
                if v == 3 && k == 2 && self.players.len() >= 2 {
                    // a players list of several datagrams whose first one is fine and whose next one is not a
                    // players datagram at all (too short for a header, or of another packet type)
                    cx.udp_send(from, self.players[0].clone());
                    let next = if cx.draw(2) == 0 { vec![0x80, 0, 0] } else { self.info.clone() };
                    cx.udp_send_after(from, next, 10_000);
                } else if v == 0 {
                    cx.udp_send(from, vec![0x80, 0, 0]);
                } else if v == 2 && k != 0 && (if k == 1 { &self.rules } else { &self.players }).len() >= 2 {
                    // a list of several datagrams whose first one is fine and whose next one is cut inside an
                    // entry (only where the first datagram does not already complete the list)
                    let list = if k == 1 { &self.rules } else { &self.players };
                    let first = list.first().cloned().unwrap_or_else(|| vec![0x80, 0, 0, 0, k as u8]);
                    cx.udp_send(from, first);
                    cx.udp_send_after(from, vec![0x80, 0, 0, 0, k as u8, 0x30, 1, 2], 10_000);
                } else {
                    // a complete valid datagram - of another packet type
                    let mut d = match k {
                        0 => self.players.first().cloned().unwrap_or_else(|| vec![0x80, 0, 0, 0, 2]),
                        _ => self.info.clone(),
                    };
                    if d.len() > 4 && d[4] == k as u8 {
                        d[4] = (k as u8 + 1) % 3;
                    }
                    cx.udp_send(from, d);
                }
            }
            Outcome::Valid => {
                let frags: Vec<Vec<u8>> = match k {
                    0 => vec![self.info.clone()],
                    1 => self.rules.clone(),
                    _ => self.players.clone(),
                };
                let mut seq: Vec<usize> = match &self.order[k] {
                    Some(o) if o.len() == frags.len() => o.clone(),
                    _ => (0 .. frags.len()).collect(),
                };
                if let Some((frag, at)) = self.dup[k] {
                    if frag < frags.len() {
                        seq.insert(at.min(seq.len()), frag);
                    }
                }
                if frags.len() > 1 {
                    cx.w.stats.probe("multi_datagram_reply");
                }
                for (rank, i) in seq.iter().enumerate() {
                    cx.udp_send_after(from, frags[*i].clone(), rank as u64 * 10_000);
                }
            }
        }
    }

    fn as_any(&mut self) -> &mut dyn std::any::Any { self }
}

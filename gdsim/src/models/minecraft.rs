//! Reference model of a Minecraft host: Java Server List Ping, legacy kick
//! packets (1.6 / 1.4 / beta 1.8) on one TCP port, Bedrock unconnected pong on
//! a UDP port. Formats follow wiki.vg "Server List Ping" and the RakNet pong.

use crate::gen::{self, StrOpts};
use crate::tape::{Tape, DATA};
use crate::world::{Cx, Server};
use serde_json::{json, Value};
use std::collections::HashMap;
use std::net::SocketAddr;

#[derive(Clone, Copy, Debug, PartialEq, Eq, Hash, PartialOrd, Ord)]
pub enum Variant {
    Java,
    Bedrock,
    L16,
    L14,
    LB18,
}

pub const ORDER: [Variant; 5] = [Variant::Java, Variant::Bedrock, Variant::L16, Variant::L14, Variant::LB18];

/// How a variant the server does not speak shows itself.
#[derive(Clone, Copy, Debug, PartialEq, Eq)]
pub enum Unspoken {
    /// TCP: accept and never answer; UDP: silence
    Silent,
    /// TCP: accept and close without data
    Close,
    /// a few bytes that are not a valid reply of that variant
    Garbage,
    /// 1.6 request answered with the old `motd§online§max` format
    WrongVariant,
    /// 1.4 ping (FE 01) answered in the 1.6 format, as servers from 1.6 on do (only where a check asks
    /// for it: the reply is a valid one, of the 1.6 kind)
    As16,
}

#[derive(Clone, Copy, Debug, PartialEq, Eq)]
pub enum Outcome {
    Valid,
    Silent,
    Malformed,
}

pub fn varint(v: i32) -> Vec<u8> {
    let mut v = v as u32;
    let mut o = Vec::new();
    loop {
        let b = (v & 0x7f) as u8;
        v >>= 7;
        if v == 0 {
            o.push(b);
            return o;
        }
        o.push(b | 0x80);
    }
}

/// Decode a VarInt per wiki.vg; returns (value, bytes used).
pub fn read_varint(d: &[u8]) -> Option<(i32, usize)> {
    let mut r: u32 = 0;
    for i in 0 .. 5 {
        let b = *d.get(i)?;
        r |= ((b & 0x7f) as u32) << (7 * i);
        if b & 0x80 == 0 {
            return Some((r as i32, i + 1));
        }
    }
    None
}

#[derive(Clone, Debug)]
pub struct JavaState {
    pub version_name: String,
    pub protocol: i32,
    pub max: u32,
    pub online: u32,
    pub sample: Option<Vec<(String, String)>>,
    pub description: Value,
    pub favicon: Option<String>,
    pub previews_chat: Option<bool>,
    pub enforces_secure_chat: Option<bool>,
    pub extra_member: bool,
    /// a null description is sent as no member at all
    pub description_left_out: bool,
}

fn js(t: &mut Tape, max: usize) -> String {
    gen::string(t, &StrOpts { max_len: max, forbid: &[], unicode: true, control: true, min_len: 0 })
}

impl JavaState {
    pub fn generate(t: &mut Tape) -> Self {
        let opt = |t: &mut Tape| t.draw(DATA, 2) == 1;
        let sample = opt(t).then(|| {
            let n = gen::count(t, 12);
            (0 .. n).map(|_| (js(t, 16), gen::word(t, 36))).collect()
        });
        let description = match t.draw(DATA, 8) {
            0 | 1 => Value::String(js(t, 60)),
            2 | 3 => json!({"text": js(t, 40)}),
            // no description (the member left out, or an explicit null): what is returned must still be
            // "nothing", not some text
            4 => Value::Null,
            _ => json!({"text": js(t, 10), "extra": [{"text": js(t, 10), "color": "red", "bold": true}]}),
        };
        let description_left_out = description.is_null() && t.draw(DATA, 2) == 0;
        Self {
            version_name: js(t, 24),
            protocol: gen::i32_(t),
            max: gen::u32_(t),
            online: gen::u32_(t),
            sample,
            description,
            // real favicons are a base64 PNG of several kilobytes: now and then one that takes the status
            // JSON past 32767 bytes
            favicon: opt(t).then(|| if t.draw(DATA, 30) == 0 { format!("data:image/png;base64,{}", "iVBORw0KGgo".repeat(3200 + t.draw(DATA, 600) as usize)) } else if t.draw(DATA, 6) == 0 { (*t.pick(DATA, &["", "data:image/jpeg;base64,AAAA", "favicon.png", "DATA:IMAGE/PNG;BASE64,xx", " data:image/png;base64,yy"])).to_string() } else { format!("data:image/png;base64,{}", gen::word(t, 64)) }),
            previews_chat: opt(t).then(|| gen::bool_(t)),
            enforces_secure_chat: opt(t).then(|| gen::bool_(t)),
            extra_member: opt(t),
            description_left_out,
        }
    }

    pub fn json(&self) -> Value {
        let mut players = json!({"max": self.max, "online": self.online});
        if let Some(s) = &self.sample {
            players["sample"] = Value::Array(s.iter().map(|(n, i)| json!({"name": n, "id": i})).collect());
        }
        let mut v = json!({
            "version": {"name": self.version_name, "protocol": self.protocol},
            "players": players,
            "description": self.description,
        });
        if self.description_left_out {
            v.as_object_mut().unwrap().remove("description");
        }
        if let Some(f) = &self.favicon {
            v["favicon"] = json!(f);
        }
        if let Some(b) = self.previews_chat {
            v["previewsChat"] = json!(b);
        }
        if let Some(b) = self.enforces_secure_chat {
            v["enforcesSecureChat"] = json!(b);
        }
        if self.extra_member {
            v["modinfo"] = json!({"type": "FML", "modList": []});
        }
        v
    }

    pub fn status_packet(&self) -> Vec<u8> {
        let text = self.json().to_string();
        let mut body = vec![0u8];
        body.extend(varint(text.len() as i32));
        body.extend_from_slice(text.as_bytes());
        let mut p = varint(body.len() as i32);
        p.extend(body);
        p
    }

    /// Expected JavaResponse (description as the JSON value sent).
    pub fn expected(&self) -> Value {
        json!({
            "game_version": self.version_name,
            "protocol_version": self.protocol,
            "players_maximum": self.max,
            "players_online": self.online,
            "players": self.sample.as_ref().map(|s| s.iter().map(|(n, i)| json!({"name": n, "id": i})).collect::<Vec<_>>()),
            "description": self.description,
            "favicon": self.favicon,
            "previews_chat": self.previews_chat,
            "enforces_secure_chat": self.enforces_secure_chat,
            "server_type": "Java",
        })
    }
}

#[derive(Clone, Debug)]
pub struct LegacyState {
    pub protocol: i32,
    pub version: String,
    pub motd: String,
    pub online: u32,
    pub max: u32,
}

impl LegacyState {
    pub fn generate(t: &mut Tape) -> Self {
        Self {
            protocol: gen::i32_(t),
            version: gen::string(t, &StrOpts { max_len: 16, forbid: &['\0', '§'], unicode: true, control: false, min_len: 0 }),
            // BMP only (UTF-16 strings; supplementary characters are legal but rare), no NUL, no section sign
            // rarely a text so long that the packet's 16-bit length (in UTF-16 units) passes 32767
            motd: if t.draw(DATA, 60) == 0 { "m".repeat(32_700 + t.draw(DATA, 300) as usize) } else { gen::string(t, &StrOpts { max_len: 60, forbid: &['\0', '§'], unicode: true, control: false, min_len: 0 }) },
            online: gen::u32_(t),
            max: gen::u32_(t),
        }
    }

    fn kick(text: &str) -> Vec<u8> {
        let units: Vec<u16> = text.encode_utf16().collect();
        let mut d = vec![0xff];
        d.extend_from_slice(&(units.len() as u16).to_be_bytes());
        for u in units {
            d.extend_from_slice(&u.to_be_bytes());
        }
        d
    }

    pub fn packet_16(&self) -> Vec<u8> {
        Self::kick(&format!("§1\0{}\0{}\0{}\0{}\0{}", self.protocol, self.version, self.motd, self.online, self.max))
    }

    pub fn packet_old(&self) -> Vec<u8> { Self::kick(&format!("{}§{}§{}", self.motd, self.online, self.max)) }

    pub fn expected(&self, v: Variant) -> Value {
        let (game_version, protocol, st) = match v {
            Variant::L16 => (self.version.clone(), self.protocol, json!({"Legacy": "V1_6"})),
            Variant::L14 => ("1.4+".to_string(), -1, json!({"Legacy": "V1_4"})),
            _ => ("Beta 1.8+".to_string(), -1, json!({"Legacy": "VB1_8"})),
        };
        json!({
            "game_version": game_version,
            "protocol_version": protocol,
            "players_maximum": self.max,
            "players_online": self.online,
            "players": null,
            "description": self.motd,
            "favicon": null,
            "previews_chat": null,
            "enforces_secure_chat": null,
            "server_type": st,
        })
    }
}

#[derive(Clone, Debug)]
pub struct BedrockState {
    pub edition: String,
    pub motd: String,
    pub protocol: String,
    pub version: String,
    pub online: u32,
    pub max: u32,
    pub id: Option<String>,
    pub map: Option<String>,
    pub mode: Option<&'static str>,
    pub tail: Option<String>,
    pub guid: [u8; 8],
}

impl BedrockState {
    pub fn generate(t: &mut Tape) -> Self {
        let s = |t: &mut Tape, n| gen::string(t, &StrOpts { max_len: n, forbid: &['\0', ';'], unicode: true, control: false, min_len: 0 });
        let fields = 6 + t.draw(DATA, 5); // 6..=10
        Self {
            edition: (*t.pick(DATA, &["MCPE", "MCEE"])).to_string(),
            // now and then a very long line of text (the pong is then several kilobytes, far above 2048 bytes)
            motd: if t.draw(DATA, 12) == 0 { gen::string(t, &StrOpts { max_len: 6000, forbid: &['\0', ';'], unicode: true, control: false, min_len: 2100 }) } else { s(t, 60) },
            protocol: t.draw(DATA, 1000).to_string(),
            version: s(t, 12),
            online: gen::u32_(t),
            max: gen::u32_(t),
            id: (fields >= 7).then(|| t.full_u64(DATA).to_string()),
            map: (fields >= 8).then(|| s(t, 24)),
            mode: (fields >= 9).then(|| *t.pick(DATA, &["Survival", "Creative", "Hardcore", "Spectator", "Adventure"])),
            tail: (fields >= 10).then(|| format!("1;19132;19133{}", if t.draw(DATA, 2) == 0 { ";" } else { "" })),
            guid: t.full_u64(DATA).to_be_bytes(),
        }
    }

    pub fn status(&self) -> String {
        let mut parts: Vec<String> =
            vec![self.edition.clone(), self.motd.clone(), self.protocol.clone(), self.version.clone(), self.online.to_string(), self.max.to_string()];
        if let Some(x) = &self.id {
            parts.push(x.clone());
        }
        if let Some(x) = &self.map {
            parts.push(x.clone());
        }
        if let Some(x) = self.mode {
            parts.push(x.to_string());
        }
        if let Some(x) = &self.tail {
            parts.push(x.clone());
        }
        parts.join(";")
    }

    pub fn pong(&self, ping_time: &[u8]) -> Vec<u8> {
        let st = self.status();
        let mut d = vec![0x1c];
        d.extend_from_slice(ping_time);
        d.extend_from_slice(&self.guid);
        d.extend_from_slice(&[0x00, 0xff, 0xff, 0x00, 0xfe, 0xfe, 0xfe, 0xfe, 0xfd, 0xfd, 0xfd, 0xfd, 0x12, 0x34, 0x56, 0x78]);
        d.extend_from_slice(&(st.len() as u16).to_be_bytes());
        d.extend_from_slice(st.as_bytes());
        d
    }

    pub fn expected(&self) -> Value {
        json!({
            "edition": self.edition,
            "name": self.motd,
            "version_name": self.version,
            "protocol_version": self.protocol,
            "players_maximum": self.max,
            "players_online": self.online,
            "id": self.id,
            "map": self.map,
            "game_mode": self.mode,
            "server_type": "Bedrock",
        })
    }

    /// What the auto-detecting query returns for a Bedrock answer.
    pub fn expected_as_java(&self) -> Value {
        json!({
            "game_version": self.version,
            "protocol_version": 0,
            "players_maximum": self.max,
            "players_online": self.online,
            "players": null,
            "description": self.motd,
            "favicon": null,
            "previews_chat": null,
            "enforces_secure_chat": null,
            "server_type": "Bedrock",
        })
    }
}

#[derive(Clone, Debug)]
pub struct McHost {
    pub java: JavaState,
    pub legacy: LegacyState,
    pub bedrock: BedrockState,
    pub speaks: Vec<Variant>,
    pub unspoken: HashMap<Variant, Unspoken>,
}

impl McHost {
    pub fn generate(t: &mut Tape, speaks: Vec<Variant>) -> Self {
        let mut unspoken = HashMap::new();
        for v in ORDER {
            if !speaks.contains(&v) {
                let u = match v {
                    Variant::Bedrock => *t.pick(DATA, &[Unspoken::Silent, Unspoken::Garbage]),
                    Variant::L16 => *t.pick(DATA, &[Unspoken::Silent, Unspoken::Close, Unspoken::Garbage, Unspoken::WrongVariant]),
                    _ => *t.pick(DATA, &[Unspoken::Silent, Unspoken::Close, Unspoken::Garbage]),
                };
                unspoken.insert(v, u);
            }
        }
        Self { java: JavaState::generate(t), legacy: LegacyState::generate(t), bedrock: BedrockState::generate(t), speaks, unspoken }
    }

    /// Expected result of the auto-detecting query.
    pub fn expected_auto(&self) -> Option<(Variant, Value)> {
        for v in ORDER {
            if self.speaks.contains(&v) {
                return Some((
                    v,
                    match v {
                        Variant::Java => self.java.expected(),
                        Variant::Bedrock => self.bedrock.expected_as_java(),
                        other => self.legacy.expected(other),
                    },
                ));
            }
        }
        None
    }
}

#[derive(Debug, Clone, PartialEq, Eq)]
pub struct Handshake {
    pub protocol: i32,
    pub host: Vec<u8>,
    pub port_be: u16,
    pub next_state: i32,
    pub raw: Vec<u8>,
}

#[derive(Default)]
struct ConnState {
    buf: Vec<u8>,
    classified: Option<Variant>,
    handshakes: usize,
    done: bool,
}

/// TCP side of the host: Java and the three legacy pings on one port.
pub struct McTcpServer {
    pub host: McHost,
    conns: HashMap<usize, ConnState>,
    /// log of probes seen, in order
    pub probes: Vec<Variant>,
    pub handshakes: Vec<Handshake>,
    pub status_requests: usize,
    pub pings: Vec<Vec<u8>>,
    pub unparsed: Vec<Vec<u8>>,
    /// per Java attempt (one handshake + status request) outcome
    pub java_outcomes: Vec<Outcome>,
    pub legacy_outcomes: Vec<Outcome>,
    pub legacy_attempts: usize,
    /// close the connection right after the status response instead of waiting for the ping
    pub close_after_status: bool,
}

impl McTcpServer {
    pub fn new(host: McHost) -> Self {
        Self {
            host,
            conns: HashMap::new(),
            probes: Vec::new(),
            handshakes: Vec::new(),
            status_requests: 0,
            pings: Vec::new(),
            unparsed: Vec::new(),
            java_outcomes: Vec::new(),
            legacy_outcomes: Vec::new(),
            legacy_attempts: 0,
            close_after_status: false,
        }
    }

    fn unspoken(&mut self, cx: &mut Cx, conn: usize, v: Variant) {
        match self.host.unspoken.get(&v).copied().unwrap_or(Unspoken::Close) {
            Unspoken::Silent => {}
            Unspoken::Close => cx.tcp_fin(conn),
            Unspoken::Garbage => {
                let n = 1 + cx.draw(12) as usize;
                let g: Vec<u8> = (0 .. n).map(|_| cx.draw(256) as u8).collect();
                // never a valid kick packet header followed by a consistent length
                let mut g = g;
                if g[0] == 0xff {
                    g[0] = 0x7e;
                }
                cx.tcp_send(conn, g);
                cx.tcp_fin(conn);
            }
            Unspoken::WrongVariant => {
                let d = self.host.legacy.packet_old();
                cx.tcp_send(conn, d);
                cx.tcp_fin(conn);
            }
            Unspoken::As16 => {
                let d = self.host.legacy.packet_16();
                cx.tcp_send(conn, d);
                cx.tcp_fin(conn);
            }
        }
    }

    fn legacy_reply(&mut self, cx: &mut Cx, conn: usize, v: Variant) {
        let n = self.legacy_attempts;
        self.legacy_attempts += 1;
        match self.legacy_outcomes.get(n).copied().unwrap_or(Outcome::Valid) {
            Outcome::Silent => {}
            Outcome::Malformed => {
                cx.tcp_send(conn, vec![0x7e, 0x00]);
                cx.tcp_fin(conn);
            }
            Outcome::Valid => {
                let d = if v == Variant::L16 { self.host.legacy.packet_16() } else { self.host.legacy.packet_old() };
                cx.tcp_send(conn, d);
                cx.tcp_fin(conn);
            }
        }
    }

    fn java_stream(&mut self, cx: &mut Cx, conn: usize) {
        // parse as many whole packets as are buffered
        loop {
            let st = self.conns.get_mut(&conn).unwrap();
            if st.done {
                return;
            }
            let Some((len, used)) = read_varint(&st.buf) else { return };
            if len < 0 {
                self.unparsed.push(st.buf.clone());
                st.done = true;
                cx.tcp_fin(conn);
                return;
            }
            let len = len as usize;
            if st.buf.len() < used + len {
                return;
            }
            let body: Vec<u8> = st.buf[used .. used + len].to_vec();
            let raw: Vec<u8> = st.buf[.. used + len].to_vec();
            st.buf.drain(.. used + len);
            let id = body.first().copied();
            let in_status = st.handshakes > 0;
            match (id, body.len()) {
                (Some(0), 1) if in_status => {
                    // status request
                    let n = self.status_requests;
                    self.status_requests += 1;
                    match self.java_outcomes.get(n).copied().unwrap_or(Outcome::Valid) {
                        Outcome::Silent => {}
                        Outcome::Malformed => {
                            cx.tcp_send(conn, vec![0x02, 0x07, 0x00]);
                            cx.tcp_fin(conn);
                            self.conns.get_mut(&conn).unwrap().done = true;
                        }
                        Outcome::Valid => {
                            let p = self.host.java.status_packet();
                            cx.tcp_send(conn, p);
                            if self.close_after_status {
                                cx.tcp_fin(conn);
                                self.conns.get_mut(&conn).unwrap().done = true;
                            }
                        }
                    }
                }
                (Some(0), _) => {
                    // handshake
                    let mut p = 1;
                    let parsed = (|| {
                        let (proto, u) = read_varint(&body[p ..])?;
                        p += u;
                        let (hl, u) = read_varint(&body[p ..])?;
                        p += u;
                        let hl = usize::try_from(hl).ok()?;
                        let host = body.get(p .. p + hl)?.to_vec();
                        p += hl;
                        let port = u16::from_be_bytes(body.get(p .. p + 2)?.try_into().ok()?);
                        p += 2;
                        let (next, u) = read_varint(&body[p ..])?;
                        p += u;
                        if p != body.len() {
                            return None;
                        }
                        Some(Handshake { protocol: proto, host, port_be: port, next_state: next, raw: raw.clone() })
                    })();
                    match parsed {
                        Some(h) => {
                            self.handshakes.push(h);
                            self.conns.get_mut(&conn).unwrap().handshakes += 1;
                        }
                        None => self.unparsed.push(raw),
                    }
                }
                (Some(1), n) => {
                    self.pings.push(body[1 ..].to_vec());
                    if n == 9 {
                        let mut pong = varint(9);
                        pong.extend_from_slice(&body);
                        cx.tcp_send(conn, pong);
                    }
                    // a ping ends the exchange (a short ping is a protocol error: close)
                    let n = self.status_requests;
                    let silent = n > 0 && self.java_outcomes.get(n - 1).copied() == Some(Outcome::Silent);
                    if !silent {
                        cx.tcp_fin(conn);
                        self.conns.get_mut(&conn).unwrap().done = true;
                    }
                }
                _ => self.unparsed.push(raw),
            }
        }
    }
}

impl Server for McTcpServer {
    fn on_tcp_data(&mut self, cx: &mut Cx, conn: usize, data: &[u8]) {
        let st = self.conns.entry(conn).or_default();
        st.buf.extend_from_slice(data);
        if st.classified.is_none() {
            let v = if st.buf.starts_with(&[0xfe, 0x01, 0xfa]) {
                Variant::L16
            } else if st.buf == [0xfe, 0x01] {
                Variant::L14
            } else if st.buf == [0xfe] {
                Variant::LB18
            } else {
                Variant::Java
            };
            st.classified = Some(v);
            self.probes.push(v);
            if !self.host.speaks.contains(&v) {
                self.conns.get_mut(&conn).unwrap().done = true;
                self.unspoken(cx, conn, v);
                return;
            }
            if v != Variant::Java {
                self.conns.get_mut(&conn).unwrap().done = true;
                self.legacy_reply(cx, conn, v);
                return;
            }
        } else if st.classified != Some(Variant::Java) {
            // a retry on the same connection (legacy clients re-send on the same stream)
            let v = st.classified.unwrap();
            if self.host.speaks.contains(&v) {
                self.legacy_reply(cx, conn, v);
            }
            return;
        }
        if self.host.speaks.contains(&Variant::Java) {
            self.java_stream(cx, conn);
        }
    }

    fn as_any(&mut self) -> &mut dyn std::any::Any { self }
}

/// UDP side: Bedrock.
pub struct McUdpServer {
    pub host: McHost,
    pub pings: Vec<Vec<u8>>,
    pub outcomes: Vec<Outcome>,
    pub attempts: usize,
}

impl Server for McUdpServer {
    fn on_udp(&mut self, cx: &mut Cx, from: SocketAddr, data: &[u8]) {
        self.pings.push(data.to_vec());
        if data.len() != 33 || data[0] != 0x01 {
            return;
        }
        if !self.host.speaks.contains(&Variant::Bedrock) {
            if self.host.unspoken.get(&Variant::Bedrock) == Some(&Unspoken::Garbage) {
                let n = 1 + cx.draw(20) as usize;
                let mut g: Vec<u8> = (0 .. n).map(|_| cx.draw(256) as u8).collect();
                if g[0] == 0x1c {
                    g[0] = 0x1d;
                }
                cx.udp_send(from, g);
            }
            return;
        }
        let n = self.attempts;
        self.attempts += 1;
        match self.outcomes.get(n).copied().unwrap_or(Outcome::Valid) {
            Outcome::Silent => {}
            Outcome::Malformed => cx.udp_send(from, vec![0x1d, 0, 0]),
            Outcome::Valid => {
                let d = self.host.bedrock.pong(&data[1 .. 9]);
                cx.udp_send(from, d);
            }
        }
    }

    fn as_any(&mut self) -> &mut dyn std::any::Any { self }
}

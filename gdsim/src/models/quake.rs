//! Reference model of Quake 1 / 2 / 3 status servers.

use crate::gen::{self, StrOpts};
use crate::models::gamespy::Outcome;
use crate::tape::{Tape, DATA};
use crate::world::{Cx, Server};
use serde_json::{json, Value};
use std::collections::BTreeMap;
use std::net::SocketAddr;

const Q_FORBID: &[char] = &['\0', '\\', '\n', '"'];

fn q_str(t: &mut Tape, max: usize, spaces: bool) -> String {
    let s = gen::string(t, &StrOpts { max_len: max, forbid: Q_FORBID, unicode: true, control: false, min_len: 0 });
    if spaces {
        s
    } else {
        s.replace(' ', "_").replace('\u{a0}', "_")
    }
}

#[derive(Clone, Debug)]
pub struct QPlayer {
    pub id: u8,
    pub frags: i32,
    pub time: u16,
    pub ping: u16,
    pub name: String,
    pub quoted: bool,
    pub skin: String,
    pub top: u8,
    pub bottom: u8,
    pub address: Option<String>,
}

#[derive(Clone, Debug)]
pub struct QuakeState {
    pub version: u8,
    pub hostname: String,
    pub host_key_alt: bool,
    pub mapname: String,
    pub map_key_alt: bool,
    pub maxclients: u8,
    pub max_key_alt: bool,
    pub game_version: Option<(bool, String)>,
    pub extras: Vec<(String, String)>,
    pub players: Vec<QPlayer>,
    pub names_with_spaces: bool,
    /// variables sent under the *other* spelling as well (with a different value): the named
    /// field comes from the primary spelling, the alternate one is just another variable
    pub both_spellings: Vec<(String, String)>,
    /// QuakeWorld servers send the text with its terminating NUL (strlen + 1 bytes)
    pub trailing_nul: bool,
    /// the variables line ends with a backslash after its last pair (an empty dangling token, not a variable)
    pub trailing_backslash: bool,
}

const Q_KNOWN: &[&str] = &["hostname", "sv_hostname", "mapname", "map", "maxclients", "sv_maxclients", "version", "*version"];

impl QuakeState {
    pub fn generate(t: &mut Tape, version: u8, max_players: u64, names_with_spaces: bool) -> Self {
        let n = gen::count(t, max_players);
        let players = (0 .. n)
            .map(|_| {
                QPlayer {
                    id: gen::u8_(t),
                    // Quake 1 frags are unsigned in the response type; keep them in the common range
                    frags: if version == 1 { gen::u16_(t) as i32 } else { gen::i32_(t) },
                    time: gen::u16_(t),
                    ping: gen::u16_(t),
                    name: {
                        let s = q_str(t, 20, names_with_spaces);
                        let s = if s.is_empty() && t.draw(DATA, 2) == 0 { "p".to_string() } else { s };
                        // now and then a name with a double quote of its own at an edge (always sent inside
                        // wrapping quotes, which are the only ones the client may remove)
                        match t.draw(DATA, 24) {
                            0 if !s.contains(' ') => format!("\"{s}\""),
                            1 if !s.contains(' ') => format!("{s}\""),
                            2 if !s.contains(' ') => format!("\"{s}"),
                            _ => s,
                        }
                    },
                    quoted: t.draw(DATA, 4) != 0,
                    skin: q_str(t, 10, false),
                    top: gen::u8_(t),
                    bottom: gen::u8_(t),
                    address: (version != 1 && t.draw(DATA, 2) == 1).then(|| if t.draw(DATA, 5) == 0 { (*t.pick(DATA, &["loopback", "bot", "localhost", "[::1]:27960", ""])).to_string() } else { format!("{}.{}.{}.{}:{}", gen::u8_(t), gen::u8_(t), gen::u8_(t), gen::u8_(t), gen::u16_(t)) }),
                }
            })
            .collect();
        let nx = gen::count(t, 20);
        let mut extras: Vec<(String, String)> = Vec::new();
        for i in 0 .. nx {
            // mostly invented keys, now and then one that real servers send (and that a client might be
            // tempted to interpret)
            let mut k = if t.draw(DATA, 5) == 0 {
                (*t.pick(DATA, &["clients", "sv_maxRate", "g_gametype", "protocol", "gamename", "sv_privateClients", "dmflags", "timelimit", "fraglimit", "*gamedir", "needpass", "deathmatch", "teamplay", "bots", "numplayers", "players", "sv_maxclients_", "Hostname", "MAPNAME"])).to_string()
            } else {
                gen::word(t, 12)
            };
            if gen::tame_keys() && !k.chars().all(|c| c.is_ascii_alphanumeric() || c == '_') {
                k = gen::word(t, 12);
            }
            if Q_KNOWN.contains(&k.as_str()) || extras.iter().any(|(kk, _)| *kk == k) {
                k = format!("x{i}{k}");
            }
            extras.push((k, q_str(t, 24, true)));
        }
        Self {
            version,
            hostname: q_str(t, 40, true),
            host_key_alt: t.draw(DATA, 2) == 1,
            mapname: q_str(t, 20, true),
            map_key_alt: t.draw(DATA, 2) == 1,
            maxclients: gen::u8_(t),
            max_key_alt: t.draw(DATA, 2) == 1,
            game_version: (t.draw(DATA, 3) != 0).then(|| (t.draw(DATA, 2) == 1, q_str(t, 20, true))),
            extras,
            players,
            names_with_spaces,
            both_spellings: Vec::new(),
            trailing_nul: t.draw(DATA, 3) == 0,
            trailing_backslash: t.draw(DATA, 10) == 0,
        }
    }

    /// Also send the alternate spelling of some of the variables that use the primary one.
    pub fn add_both_spellings(&mut self, t: &mut Tape) {
        let add = |t: &mut Tape, uses_alt: bool, alt: &str, out: &mut Vec<(String, String)>| {
            if !uses_alt && t.draw(DATA, 2) == 1 {
                out.push((alt.to_string(), q_str(t, 12, true)));
            }
        };
        let mut v = Vec::new();
        add(t, self.host_key_alt, "sv_hostname", &mut v);
        add(t, self.map_key_alt, "map", &mut v);
        add(t, self.max_key_alt, "sv_maxclients", &mut v);
        if let Some((alt, _)) = &self.game_version {
            add(t, *alt, "*version", &mut v);
        }
        self.both_spellings = v;
    }

    /// A status reply is one datagram: keep it within the MTU.
    pub fn fit(&mut self) { self.fit_to(1400) }

    /// Keep the reply within `limit` bytes (a datagram above the MTU travels in IP fragments).
    pub fn fit_to(&mut self, limit: usize) {
        while self.encode().len() > limit {
            if self.players.pop().is_none() && self.extras.pop().is_none() {
                break;
            }
        }
    }

    pub fn encode(&self) -> Vec<u8> {
        let mut d = vec![0xff, 0xff, 0xff, 0xff];
        d.extend_from_slice(match self.version {
            1 => b"n",
            2 => b"print\n",
            _ => b"statusResponse\n",
        });
        let mut s = String::new();
        let mut kv = |k: &str, v: &str| {
            s.push('\\');
            s.push_str(k);
            s.push('\\');
            s.push_str(v);
        };
        kv(if self.host_key_alt { "sv_hostname" } else { "hostname" }, &self.hostname);
        kv(if self.map_key_alt { "map" } else { "mapname" }, &self.mapname);
        kv(if self.max_key_alt { "sv_maxclients" } else { "maxclients" }, &self.maxclients.to_string());
        if let Some((alt, v)) = &self.game_version {
            kv(if *alt { "*version" } else { "version" }, v);
        }
        for (k, v) in &self.extras {
            kv(k, v);
        }
        for (k, v) in &self.both_spellings {
            kv(k, v);
        }
        if self.trailing_backslash {
            s.push('\\');
        }
        s.push('\n');
        for p in &self.players {
            let name = if p.quoted || p.name.contains(' ') || p.name.contains('"') || p.name.is_empty() { format!("\"{}\"", p.name) } else { p.name.clone() };
            if self.version == 1 {
                s.push_str(&format!("{} {} {} {} {} \"{}\" {} {}\n", p.id, p.frags, p.time, p.ping, name, p.skin, p.top, p.bottom));
            } else {
                s.push_str(&format!("{} {} {}", p.frags, p.ping, name));
                if let Some(a) = &p.address {
                    s.push_str(&format!(" \"{a}\""));
                }
                s.push('\n');
            }
        }
        d.extend_from_slice(s.as_bytes());
        if self.trailing_nul {
            d.push(0);
        }
        d
    }

    pub fn expected(&self) -> Value {
        let mut unused: BTreeMap<String, String> = self.extras.iter().cloned().collect();
        unused.extend(self.both_spellings.iter().cloned());
        let players: Vec<Value> = self
            .players
            .iter()
            .map(|p| {
                if self.version == 1 {
                    json!({"id": p.id, "score": p.frags, "time": p.time, "ping": p.ping, "name": p.name, "skin": p.skin, "color_primary": p.top, "color_secondary": p.bottom})
                } else {
                    json!({"score": p.frags, "ping": p.ping, "name": p.name, "address": p.address})
                }
            })
            .collect();
        json!({
            "name": self.hostname,
            "map": self.mapname,
            "players": players,
            "players_online": self.players.len() as u8,
            "players_maximum": self.maxclients,
            "game_version": self.game_version.as_ref().map(|(_, v)| v.clone()),
            "unused_entries": unused,
        })
    }
}

pub struct QuakeServer {
    pub st: QuakeState,
    pub outcomes: Vec<Outcome>,
    pub attempts: usize,
    pub requests: Vec<Vec<u8>>,
}

impl Server for QuakeServer {
    fn on_udp(&mut self, cx: &mut Cx, from: SocketAddr, data: &[u8]) {
        self.requests.push(data.to_vec());
        let want: &[u8] = if self.st.version == 3 { b"\xff\xff\xff\xffgetstatus\0" } else { b"\xff\xff\xff\xffstatus\0" };
        if data != want {
            return;
        }
        let n = self.attempts;
        self.attempts += 1;
        match self.outcomes.get(n).copied().unwrap_or(Outcome::Valid) {
            Outcome::Silent | Outcome::Partial => {}
            Outcome::Malformed => {
                if cx.draw(2) == 0 {
                    cx.udp_send(from, vec![0xff, 0xff, 0xff, 0xff, b'?', b'?']);
                } else {
                    // the complete valid reply under another response header
                    let mut d = self.st.encode();
                    d[4] = if d[4] == b'p' { b'q' } else { b'p' };
                    cx.udp_send(from, d);
                }
            }
            Outcome::Valid => {
                let d = self.st.encode();
                cx.udp_send(from, d);
            }
        }
    }

    fn as_any(&mut self) -> &mut dyn std::any::Any { self }
}

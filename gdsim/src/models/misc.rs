//! Single-game protocols: Frontlines: Fuel of War, Savage 2 (code-derived
//! golden layouts), Mindustry (from the cited Java sources) and Eco (JSON).

use crate::gen::{self, StrOpts};
use crate::models::gamespy::Outcome;
use crate::tape::{Tape, DATA};
use crate::world::{Cx, HttpHandler, Server, World};
use serde_json::{json, Map, Value};
use std::net::SocketAddr;

fn zs(t: &mut Tape, max: usize) -> String { gen::string(t, &StrOpts::plain(max)) }

fn z(o: &mut Vec<u8>, s: &str) {
    o.extend_from_slice(s.as_bytes());
    o.push(0);
}

// ---------------------------------------------------------------- FFOW

#[derive(Clone, Debug)]
pub struct FfowState {
    pub protocol: u8,
    pub name: String,
    pub map: String,
    pub active_mod: String,
    pub mode: String,
    pub description: String,
    pub version: String,
    pub skip2: [u8; 2],
    pub players: u8,
    pub max: u8,
    pub server_type: u8,
    pub environment: u8,
    pub password: u8,
    pub vac: u8,
    pub fps: u8,
    pub round: u8,
    pub rounds_max: u8,
    pub time_left: u16,
}

impl FfowState {
    pub fn generate(t: &mut Tape) -> Self {
        Self {
            protocol: gen::u8_(t),
            name: zs(t, 60),
            map: zs(t, 30),
            active_mod: zs(t, 20),
            mode: zs(t, 20),
            description: zs(t, 80),
            version: zs(t, 16),
            skip2: [gen::u8_(t), gen::u8_(t)],
            players: gen::u8_(t),
            max: gen::u8_(t),
            server_type: *t.pick(DATA, &[b'd', b'l', b'p', b'D']),
            environment: *t.pick(DATA, &[b'l', b'w', b'm', b'o', b'W']),
            password: t.draw(DATA, 2) as u8,
            vac: t.draw(DATA, 2) as u8,
            fps: gen::u8_(t),
            round: gen::u8_(t),
            rounds_max: gen::u8_(t),
            time_left: gen::u16_(t),
        }
    }

    /// Payload after `FF FF FF FF` (starts with the kind byte).
    pub fn payload(&self) -> Vec<u8> {
        let mut o = vec![0x46, self.protocol];
        for s in [&self.name, &self.map, &self.active_mod, &self.mode, &self.description, &self.version] {
            z(&mut o, s);
        }
        o.extend_from_slice(&self.skip2);
        o.extend_from_slice(&[self.players, self.max, self.server_type, self.environment, self.password, self.vac, self.fps, self.round, self.rounds_max]);
        o.extend_from_slice(&self.time_left.to_le_bytes());
        o
    }

    pub fn expected(&self) -> Value {
        let st = match self.server_type.to_ascii_lowercase() {
            b'd' => "Dedicated",
            b'l' => "NonDedicated",
            _ => "TV",
        };
        let env = match self.environment.to_ascii_lowercase() {
            b'l' => "Linux",
            b'w' => "Windows",
            _ => "Mac",
        };
        json!({
            "protocol_version": self.protocol, "name": self.name, "active_mod": self.active_mod, "game_mode": self.mode,
            "game_version": self.version, "description": self.description, "map": self.map, "players_online": self.players,
            "players_maximum": self.max, "server_type": st, "environment_type": env, "has_password": self.password == 1,
            "vac_secured": self.vac == 1, "round": self.round, "rounds_maximum": self.rounds_max, "time_left": self.time_left,
        })
    }
}

// ---------------------------------------------------------------- Savage 2

#[derive(Clone, Debug)]
pub struct Savage2State {
    pub head: [u8; 12],
    pub name: String,
    pub players: u8,
    pub max: u8,
    pub time: String,
    pub map: String,
    pub next_map: String,
    pub location: String,
    pub min_players: u8,
    pub mode: String,
    pub version: String,
    pub min_level: u8,
}

impl Savage2State {
    pub fn generate(t: &mut Tape) -> Self {
        let mut head = [0u8; 12];
        for b in &mut head {
            *b = gen::u8_(t);
        }
        Self {
            head,
            name: zs(t, 60),
            players: gen::u8_(t),
            max: gen::u8_(t),
            time: zs(t, 12),
            map: zs(t, 30),
            next_map: zs(t, 30),
            location: zs(t, 20),
            min_players: gen::u8_(t),
            mode: zs(t, 16),
            version: zs(t, 16),
            min_level: gen::u8_(t),
        }
    }

    pub fn datagram(&self) -> Vec<u8> {
        let mut o = self.head.to_vec();
        z(&mut o, &self.name);
        o.push(self.players);
        o.push(self.max);
        z(&mut o, &self.time);
        z(&mut o, &self.map);
        z(&mut o, &self.next_map);
        z(&mut o, &self.location);
        o.push(self.min_players);
        z(&mut o, &self.mode);
        z(&mut o, &self.version);
        o.push(self.min_level);
        o
    }

    pub fn expected(&self) -> Value {
        json!({
            "name": self.name, "players_online": self.players, "players_maximum": self.max, "players_minimum": self.min_players,
            "time": self.time, "map": self.map, "next_map": self.next_map, "location": self.location, "game_mode": self.mode,
            "protocol_version": self.version, "level_minimum": self.min_level,
        })
    }
}

// ---------------------------------------------------------------- Mindustry

#[derive(Clone, Debug)]
pub struct MindustryState {
    pub host: String,
    pub map: String,
    pub players: i32,
    pub wave: i32,
    pub version: i32,
    pub version_type: String,
    pub mode: u8,
    pub limit: i32,
    pub description: String,
    pub mode_name: Option<String>,
}

fn ls(t: &mut Tape, max_bytes: usize) -> String {
    let mut s = gen::string(t, &StrOpts::plain(max_bytes));
    while s.len() > max_bytes {
        s.pop();
    }
    s
}

impl MindustryState {
    pub fn generate(t: &mut Tape) -> Self {
        let mut st = Self {
            // every string has a one-byte length prefix: up to 255 bytes each
            host: ls(t, 255),
            map: ls(t, 255),
            players: gen::i32_(t),
            wave: gen::i32_(t),
            version: gen::i32_(t),
            version_type: ls(t, 255),
            mode: t.draw(DATA, 5) as u8,
            limit: gen::i32_(t),
            description: ls(t, 255),
            mode_name: (t.draw(DATA, 2) == 1).then(|| ls(t, 255)),
        };
        st.fit();
        st
    }

    /// The server writes its reply into a 500-byte buffer (and the client reads 500 bytes): shorten the
    /// longest string until the reply fits.
    pub fn fit(&mut self) {
        while self.datagram().len() > 500 {
            let mut all: Vec<&mut String> = vec![&mut self.host, &mut self.map, &mut self.version_type, &mut self.description];
            if let Some(m) = self.mode_name.as_mut() {
                all.push(m);
            }
            let longest = all.into_iter().max_by_key(|s| s.len()).unwrap();
            longest.pop();
        }
    }

    pub fn datagram(&self) -> Vec<u8> {
        let mut o = Vec::new();
        let s = |o: &mut Vec<u8>, s: &str| {
            o.push(s.len() as u8);
            o.extend_from_slice(s.as_bytes());
        };
        s(&mut o, &self.host);
        s(&mut o, &self.map);
        o.extend_from_slice(&self.players.to_be_bytes());
        o.extend_from_slice(&self.wave.to_be_bytes());
        o.extend_from_slice(&self.version.to_be_bytes());
        s(&mut o, &self.version_type);
        o.push(self.mode);
        o.extend_from_slice(&self.limit.to_be_bytes());
        s(&mut o, &self.description);
        if let Some(m) = &self.mode_name {
            s(&mut o, m);
        }
        o
    }

    pub fn expected(&self) -> Value {
        let mode = ["Survival", "Sandbox", "Attack", "PVP", "Editor"][self.mode as usize];
        json!({
            "host": self.host, "map": self.map, "players": self.players, "wave": self.wave, "version": self.version,
            "version_type": self.version_type, "gamemode": mode,
            "player_limit": self.limit, "description": self.description, "mode_name": self.mode_name,
        })
    }
}

/// A UDP server that answers one fixed request with one fixed datagram.
pub struct OneShotServer {
    pub request: Vec<u8>,
    pub reply: Vec<u8>,
    pub malformed: Vec<u8>,
    pub outcomes: Vec<Outcome>,
    pub attempts: usize,
    pub requests: Vec<Vec<u8>>,
}

impl OneShotServer {
    pub fn new(request: Vec<u8>, reply: Vec<u8>) -> Self { Self { request, reply, malformed: vec![0xff], outcomes: Vec::new(), attempts: 0, requests: Vec::new() } }
}

impl Server for OneShotServer {
    fn on_udp(&mut self, cx: &mut Cx, from: SocketAddr, data: &[u8]) {
        self.requests.push(data.to_vec());
        if data != self.request {
            return;
        }
        let n = self.attempts;
        self.attempts += 1;
        match self.outcomes.get(n).copied().unwrap_or(Outcome::Valid) {
            Outcome::Silent | Outcome::Partial => {}
            Outcome::Malformed => cx.udp_send(from, self.malformed.clone()),
            Outcome::Valid => cx.udp_send(from, self.reply.clone()),
        }
    }

    fn as_any(&mut self) -> &mut dyn std::any::Any { self }
}

// ---------------------------------------------------------------- Eco

#[derive(Clone, Debug)]
pub struct EcoState {
    pub info: Map<String, Value>,
}

const ECO_STR: &[&str] = &[
    "Description", "DetailedDescription", "Category", "WorldSize", "Version", "EconomyDesc", "SkillSpecializationSetting", "Language",
    "DistributionStationItems", "Playtimes", "DiscordAddress", "RelayAddress", "Access", "JoinUrl",
];
const ECO_U32: &[&str] = &[
    "GamePort", "WebPort", "OnlinePlayers", "TotalPlayers", "Animals", "Plants", "Laws", "ActiveAndOnlinePlayers", "PeakActivePlayers", "MaxActivePlayers",
];
const ECO_BOOL: &[&str] = &["External", "IsLAN", "AdminOnline", "HasPassword", "HasMeteor", "IsPaused", "IsLimitingHours"];
const ECO_F64: &[&str] = &["TimeSinceStart", "TimeLeft", "ShelfLifeMultiplier", "ExhaustionAfterHours"];

impl EcoState {
    pub fn generate(t: &mut Tape) -> Self {
        let mut m = Map::new();
        let s = |t: &mut Tape| gen::string(t, &StrOpts { max_len: 40, forbid: &[], unicode: true, control: true, min_len: 0 });
        for k in ECO_STR {
            m.insert((*k).to_string(), json!(s(t)));
        }
        for k in ECO_U32 {
            m.insert((*k).to_string(), json!(gen::u32_(t)));
        }
        for k in ECO_BOOL {
            m.insert((*k).to_string(), json!(gen::bool_(t)));
        }
        for k in ECO_F64 {
            // finite doubles with an exact decimal representation
            let v = (gen::i32_(t) as f64) / 8.0;
            m.insert((*k).to_string(), json!(v));
        }
        if t.draw(DATA, 6) == 0 {
            // a long description: the body is then well above the HTTP client's 5012-byte allocation hint
            let long = gen::string(t, &StrOpts { max_len: 9000, forbid: &[], unicode: true, control: true, min_len: 5100 });
            m.insert("DetailedDescription".into(), json!(long));
        }
        let n = gen::count(t, 100);
        m.insert("OnlinePlayersNames".into(), Value::Array((0 .. n).map(|_| json!(s(t))).collect()));
        let na = gen::count(t, 6);
        let mut ach = Map::new();
        for i in 0 .. na {
            ach.insert(format!("{}{i}", gen::word(t, 8)), json!(s(t)));
        }
        m.insert("ServerAchievementsDict".into(), Value::Object(ach));
        if t.draw(DATA, 2) == 0 {
            m.insert("UnknownFutureField".into(), json!(1));
        }
        Self { info: m }
    }

    pub fn body(&self) -> Vec<u8> {
        let mut root = json!({"Info": Value::Object(self.info.clone())});
        if self.info.contains_key("UnknownFutureField") {
            root["Extra"] = json!([1, 2, 3]);
        }
        root.to_string().into_bytes()
    }

    pub fn expected(&self) -> Value {
        let i = &self.info;
        let g = |k: &str| i.get(k).cloned().unwrap_or(Value::Null);
        json!({
            "external": g("External"), "port": g("GamePort"), "query_port": g("WebPort"), "is_lan": g("IsLAN"),
            "description": g("Description"), "description_detailed": g("DetailedDescription"), "description_economy": g("EconomyDesc"),
            "category": g("Category"), "players_online": g("OnlinePlayers"), "players_maximum": g("TotalPlayers"),
            "players": g("OnlinePlayersNames").as_array().map(|a| a.iter().map(|n| json!({"name": n})).collect::<Vec<_>>()),
            "admin_online": g("AdminOnline"), "time_since_start": g("TimeSinceStart"), "time_left": g("TimeLeft"), "animals": g("Animals"),
            "plants": g("Plants"), "laws": g("Laws"), "world_size": g("WorldSize"), "game_version": g("Version"),
            "skill_specialization_setting": g("SkillSpecializationSetting"), "language": g("Language"), "has_password": g("HasPassword"),
            "has_meteor": g("HasMeteor"), "distribution_station_items": g("DistributionStationItems"), "playtimes": g("Playtimes"),
            "discord_address": g("DiscordAddress"), "is_paused": g("IsPaused"), "active_and_online_players": g("ActiveAndOnlinePlayers"),
            "peak_active_players": g("PeakActivePlayers"), "max_active_players": g("MaxActivePlayers"),
            "shelf_life_multiplier": g("ShelfLifeMultiplier"), "exhaustion_after_hours": g("ExhaustionAfterHours"),
            "is_limiting_hours": g("IsLimitingHours"), "server_achievements_dict": g("ServerAchievementsDict"),
            "relay_address": g("RelayAddress"), "access": g("Access"), "connect": g("JoinUrl"),
        })
    }
}

pub struct EcoHttp {
    pub st: EcoState,
    pub expect_host: String,
    pub expect_port: u16,
    pub requests: Vec<(String, String)>,
    pub fail: Option<std::io::ErrorKind>,
}

impl HttpHandler for EcoHttp {
    fn serve(&mut self, _w: &mut World, method: &str, url: &str, _h: &[(String, String)]) -> std::io::Result<Vec<u8>> {
        self.requests.push((method.to_string(), url.to_string()));
        if let Some(k) = self.fail {
            return Err(std::io::Error::new(k, "simulated transport failure"));
        }
        let want = format!("http://{}:{}/frontpage", self.expect_host, self.expect_port);
        if method != "GET" || url != want {
            return Err(std::io::Error::new(std::io::ErrorKind::ConnectionRefused, format!("no server at {url} (serving {want})")));
        }
        Ok(self.st.body())
    }
}

// ---------------- HTTP/1.1 server node (the real HTTP client runs against it) ----------------

/// How the response body is framed on the stream.
#[derive(Clone, Debug, PartialEq)]
pub enum HttpFraming {
    /// `Content-Length: n`, connection kept open
    ContentLength,
    /// `Transfer-Encoding: chunked` with the given chunk sizes (the rest in one last chunk)
    Chunked(Vec<usize>),
    /// neither: the body ends when the server closes the stream
    UntilClose,
}

/// A minimal HTTP/1.1 origin server: answers every complete request head with one fixed response.
pub struct HttpTcpServer {
    pub status_line: String,
    pub headers: Vec<(String, String)>,
    pub body: Vec<u8>,
    pub framing: HttpFraming,
    /// gzip the body and say so (the client advertises `Accept-Encoding: gzip`)
    pub gzip: bool,
    /// `Connection: close` and FIN after the response
    pub close_after: bool,
    /// request heads received (raw bytes up to and including the blank line)
    pub requests: Vec<Vec<u8>>,
    pub served: u32,
    bufs: std::collections::BTreeMap<usize, Vec<u8>>,
}

impl HttpTcpServer {
    pub fn new(body: Vec<u8>, framing: HttpFraming) -> Self {
        Self {
            status_line: "HTTP/1.1 200 OK".into(),
            headers: vec![("Content-Type".into(), "application/json; charset=utf-8".into()), ("Server".into(), "Kestrel".into())],
            body,
            framing,
            gzip: false,
            close_after: false,
            requests: Vec::new(),
            served: 0,
            bufs: Default::default(),
        }
    }

    pub fn response_bytes(&self) -> Vec<u8> {
        let body = if self.gzip {
            use std::io::Write;
            let mut e = flate2::write::GzEncoder::new(Vec::new(), flate2::Compression::fast());
            e.write_all(&self.body).unwrap();
            e.finish().unwrap()
        } else {
            self.body.clone()
        };
        let mut o = Vec::new();
        o.extend_from_slice(self.status_line.as_bytes());
        o.extend_from_slice(b"\r\n");
        for (k, v) in &self.headers {
            o.extend_from_slice(format!("{k}: {v}\r\n").as_bytes());
        }
        if self.gzip {
            o.extend_from_slice(b"Content-Encoding: gzip\r\n");
        }
        if self.close_after || self.framing == HttpFraming::UntilClose {
            o.extend_from_slice(b"Connection: close\r\n");
        }
        match &self.framing {
            HttpFraming::ContentLength => {
                o.extend_from_slice(format!("Content-Length: {}\r\n\r\n", body.len()).as_bytes());
                o.extend_from_slice(&body);
            }
            HttpFraming::Chunked(sizes) => {
                o.extend_from_slice(b"Transfer-Encoding: chunked\r\n\r\n");
                let mut pos = 0;
                for s in sizes {
                    let s = (*s).min(body.len() - pos);
                    if s == 0 {
                        continue;
                    }
                    o.extend_from_slice(format!("{s:x}\r\n").as_bytes());
                    o.extend_from_slice(&body[pos .. pos + s]);
                    o.extend_from_slice(b"\r\n");
                    pos += s;
                }
                if pos < body.len() {
                    o.extend_from_slice(format!("{:X}\r\n", body.len() - pos).as_bytes());
                    o.extend_from_slice(&body[pos ..]);
                    o.extend_from_slice(b"\r\n");
                }
                o.extend_from_slice(b"0\r\n\r\n");
            }
            HttpFraming::UntilClose => {
                o.extend_from_slice(b"\r\n");
                o.extend_from_slice(&body);
            }
        }
        o
    }
}

impl Server for HttpTcpServer {
    fn on_tcp_data(&mut self, cx: &mut Cx, conn: usize, data: &[u8]) {
        let mut buf = self.bufs.remove(&conn).unwrap_or_default();
        buf.extend_from_slice(data);
        if let Some(end) = buf.windows(4).position(|w| w == b"\r\n\r\n") {
            let head: Vec<u8> = buf.drain(.. end + 4).collect();
            self.requests.push(head);
            self.served += 1;
            let resp = self.response_bytes();
            cx.tcp_send(conn, resp);
            if self.close_after || self.framing == HttpFraming::UntilClose {
                cx.tcp_fin(conn);
            }
        }
        self.bufs.insert(conn, buf);
    }

    fn as_any(&mut self) -> &mut dyn std::any::Any { self }
}

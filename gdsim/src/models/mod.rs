//! Reference models of the servers gamedig talks to.
pub mod gamespy;
pub mod minecraft;
pub mod misc;
pub mod quake;
pub mod unreal2;
pub mod valve;

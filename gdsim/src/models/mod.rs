//! Reference models of the servers gamedig talks to.
pub mod valve;

//! Reference models of GameSpy 1, 2 and 3 servers. Formats follow the public
//! descriptions of these protocols and the node-gamedig reference readers
//! (not the Rust parser).

use crate::gen::{self, StrOpts};
use crate::tape::{Tape, DATA};
use crate::world::{Cx, Server};
use serde_json::{json, Value};
use std::collections::BTreeMap;
use std::net::SocketAddr;

pub const GS_FORBID: &[char] = &['\0', '\\'];

fn gs_str(t: &mut Tape, max: usize) -> String {
    // now and then a value that is a word of the protocol itself
    if max >= 7 && t.draw(DATA, 40) == 0 {
        return (*t.pick(DATA, &["final", "queryid", "1.1", "final ", "splitnum", "player_", "team_t"])).to_string();
    }
    gen::string(t, &StrOpts { max_len: max, forbid: GS_FORBID, unicode: true, control: false, min_len: 0 })
}

fn gs_str1(t: &mut Tape, max: usize) -> String {
    gen::string(t, &StrOpts { max_len: max, forbid: GS_FORBID, unicode: true, control: false, min_len: 1 })
}

#[derive(Clone, Copy, Debug, PartialEq, Eq)]
pub enum Outcome {
    Valid,
    Silent,
    Malformed,
    /// only the first datagram of a multi-datagram reply arrives (a single-datagram protocol stays silent)
    Partial,
}

/// Part of a reply of several datagrams: a non-empty subset that leaves at least one out, in the order
/// sent (mostly just the first one, as when the rest of a burst is lost). Nothing for a reply of one.
fn proper_subset(cx: &mut Cx, d: &[Vec<u8>]) -> Vec<Vec<u8>> {
    if d.len() < 2 {
        return Vec::new();
    }
    if cx.draw(2) == 0 {
        return vec![d[0].clone()];
    }
    let left_out = cx.draw(d.len() as u64) as usize;
    let mut out: Vec<Vec<u8>> = d.iter().enumerate().filter(|(i, _)| *i != left_out && cx.draw(2) == 0).map(|(_, x)| x.clone()).collect();
    if out.is_empty() {
        out.push(d[(left_out + 1) % d.len()].clone());
    }
    out
}

// ====================================================================== GS1

#[derive(Clone, Debug)]
pub struct Gs1Player {
    pub name: String,
    pub name_key_alt: bool,
    pub frags: i32,
    pub ping: u16,
    pub team: Option<u8>,
    pub mesh: Option<String>,
    pub skin: Option<String>,
    pub face: Option<String>,
    pub secret: Option<bool>,
    pub deaths: Option<u32>,
    pub health: Option<u32>,
}

#[derive(Clone, Debug)]
pub struct Gs1State {
    /// numeric player fields are sent with a leading blank, as Unreal-engine servers do (`\\ping_0\\ 38`)
    pub pad_numbers: bool,
    pub hostname: String,
    pub mapname: String,
    pub maptitle: Option<String>,
    pub gametype: String,
    pub gamever: String,
    pub maxplayers: u32,
    pub minplayers: Option<u8>,
    pub password: String,
    pub admin_name: Option<(bool, String)>, // (uses the key "admin" instead of "AdminName", value)
    pub admin_email: Option<String>,
    pub tournament: Option<String>,
    pub extras: Vec<(String, String)>,
    pub players: Vec<Gs1Player>,
    pub query_id: u32,
}

const GS1_KNOWN: &[&str] = &[
    "hostname", "mapname", "maptitle", "gametype", "gamever", "maxplayers", "minplayers", "numplayers", "password", "AdminName", "admin",
    "AdminEMail", "tournament", "final", "queryid",
];
const PLAYER_KINDS: &[&str] = &["team", "player", "playername", "ping", "face", "skin", "mesh", "frags", "ngsecret", "deaths", "health"];

pub fn password_truth(s: &str) -> bool {
    match s.to_lowercase().as_str() {
        "true" => true,
        "false" => false,
        other => other.parse::<u8>().map(|v| v != 0).unwrap_or(false),
    }
}

fn gen_password(t: &mut Tape) -> String { (*t.pick(DATA, &["0", "1", "true", "false", "True", "False", "2"])).to_string() }

fn gen_extras(t: &mut Tape, known: &[&str], max: u64) -> Vec<(String, String)> {
    let n = gen::count(t, max);
    let mut out: Vec<(String, String)> = Vec::new();
    for i in 0 .. n {
        // mostly invented keys, now and then one that real servers send (and that a client might be tempted
        // to interpret where its response type has no member for it)
        let mut k = if t.draw(DATA, 6) == 0 {
            (*t.pick(DATA, &["gametype", "gamemode", "gamever", "gamename", "hostport", "timelimit", "fraglimit", "teamplay", "location", "numteams", "game_id", "plugins", "hostip", "gamevariant", "Hostname", "MapName", "version", "description", "tournament", "maptitle"])).to_string()
        } else {
            gen::word(t, 10)
        };
        if t.draw(DATA, 4) == 0 {
            k.push('_');
            k.push_str(&gen::word(t, 3));
        }
        let kind = k.split('_').next().unwrap_or("");
        if known.contains(&k.as_str()) || PLAYER_KINDS.contains(&kind) || out.iter().any(|(kk, _)| *kk == k) {
            k = format!("x{i}{k}");
        }
        out.push((k, gs_str(t, 30)));
    }
    out
}

impl Gs1State {
    pub fn generate(t: &mut Tape, max_players: u64) -> Self {
        let n = gen::count(t, max_players);
        let opt = |t: &mut Tape| t.draw(DATA, 2) == 1;
        let players = (0 .. n)
            .map(|_| {
                Gs1Player {
                    name: gs_str(t, 24),
                    name_key_alt: t.draw(DATA, 4) == 0,
                    frags: gen::i32_(t),
                    ping: gen::u16_(t),
                    team: opt(t).then(|| gen::u8_(t)),
                    mesh: opt(t).then(|| gs_str(t, 12)),
                    skin: opt(t).then(|| gs_str(t, 12)),
                    face: opt(t).then(|| gs_str(t, 12)),
                    secret: opt(t).then(|| gen::bool_(t)),
                    deaths: opt(t).then(|| gen::u32_(t)),
                    health: opt(t).then(|| gen::u32_(t)),
                }
            })
            .collect();
        Self {
            pad_numbers: t.draw(DATA, 6) == 0,
            hostname: gs_str(t, 60),
            mapname: gs_str(t, 30),
            maptitle: opt(t).then(|| gs_str(t, 30)),
            gametype: gs_str(t, 20),
            gamever: gs_str(t, 12),
            // a limit a real server could have; huge limits belong to C13
            maxplayers: if t.draw(DATA, 4) == 0 { t.draw(DATA, 100_000) as u32 } else { t.draw(DATA, 129) as u32 },
            minplayers: opt(t).then(|| gen::u8_(t)),
            password: gen_password(t),
            admin_name: opt(t).then(|| (t.draw(DATA, 2) == 1, gs_str(t, 16))),
            admin_email: opt(t).then(|| gs_str(t, 24)),
            tournament: opt(t).then(|| (*t.pick(DATA, &["true", "false", "True", "False"])).to_string()),
            extras: gen_extras(t, GS1_KNOWN, 20),
            players,
            query_id: t.draw(DATA, 100) as u32,
        }
    }

    /// All key/value pairs in wire order.
    pub fn pairs(&self) -> Vec<(String, String)> {
        let mut v: Vec<(String, String)> = vec![
            ("hostname".into(), self.hostname.clone()),
            ("mapname".into(), self.mapname.clone()),
            ("gametype".into(), self.gametype.clone()),
            ("gamever".into(), self.gamever.clone()),
            ("maxplayers".into(), self.maxplayers.to_string()),
            ("numplayers".into(), self.players.len().to_string()),
            ("password".into(), self.password.clone()),
        ];
        if let Some(m) = &self.maptitle {
            v.push(("maptitle".into(), m.clone()));
        }
        if let Some(m) = self.minplayers {
            v.push(("minplayers".into(), m.to_string()));
        }
        if let Some((alt, n)) = &self.admin_name {
            v.push((if *alt { "admin" } else { "AdminName" }.into(), n.clone()));
        }
        if let Some(e) = &self.admin_email {
            v.push(("AdminEMail".into(), e.clone()));
        }
        if let Some(x) = &self.tournament {
            v.push(("tournament".into(), x.clone()));
        }
        v.extend(self.extras.iter().cloned());
        for (i, p) in self.players.iter().enumerate() {
            v.push((format!("{}_{i}", if p.name_key_alt { "playername" } else { "player" }), p.name.clone()));
            let num = |x: String| if self.pad_numbers { format!(" {x}") } else { x };
            v.push((format!("frags_{i}"), num(p.frags.to_string())));
            v.push((format!("ping_{i}"), num(p.ping.to_string())));
            if let Some(x) = p.team {
                v.push((format!("team_{i}"), num(x.to_string())));
            }
            if let Some(x) = &p.mesh {
                v.push((format!("mesh_{i}"), x.clone()));
            }
            if let Some(x) = &p.skin {
                v.push((format!("skin_{i}"), x.clone()));
            }
            if let Some(x) = &p.face {
                v.push((format!("face_{i}"), x.clone()));
            }
            if let Some(x) = p.secret {
                v.push((format!("ngsecret_{i}"), x.to_string()));
            }
            if let Some(x) = p.deaths {
                v.push((format!("deaths_{i}"), num(x.to_string())));
            }
            if let Some(x) = p.health {
                v.push((format!("health_{i}"), num(x.to_string())));
            }
        }
        v
    }

    /// Encode into about `parts` datagrams, cut between key/value pairs; no datagram
    /// exceeds the MTU (a part that would grow beyond 1300 bytes is cut earlier).
    pub fn encode(&self, t: &mut Tape, parts: usize, final_first: bool) -> Vec<Vec<u8>> {
        let pairs = self.pairs();
        let parts = parts.clamp(1, pairs.len().max(1));
        let mut cuts: Vec<usize> = (0 .. parts - 1).map(|_| 1 + t.draw(DATA, pairs.len().max(2) as u64 - 1) as usize).collect();
        cuts.sort();
        cuts.dedup();
        let mut bodies: Vec<String> = vec![String::new()];
        for (i, (k, v)) in pairs.iter().enumerate() {
            let add = 2 + k.len() + v.len();
            let cur = bodies.last().unwrap();
            if !cur.is_empty() && (cuts.contains(&i) || cur.len() + add > 1300) {
                bodies.push(String::new());
            }
            let cur = bodies.last_mut().unwrap();
            cur.push('\\');
            cur.push_str(k);
            cur.push('\\');
            cur.push_str(v);
        }
        let total = bodies.len();
        // some servers end every part with a backslash, also after the query id: an empty dangling token,
        // not a variable
        let trailing_backslash = t.draw(DATA, 10) == 0;
        bodies
            .into_iter()
            .enumerate()
            .map(|(pi, mut s)| {
                let last = pi + 1 == total;
                if last && final_first {
                    s.push_str("\\final\\");
                }
                s.push_str(&format!("\\queryid\\{}.{}", self.query_id, pi + 1));
                if last && !final_first {
                    s.push_str("\\final\\");
                } else if trailing_backslash {
                    s.push('\\');
                }
                s.into_bytes()
            })
            .collect()
    }

    pub fn expected_vars(&self) -> BTreeMap<String, String> { self.pairs().into_iter().collect() }

    /// Expected `one::Response` as JSON. `numplayers` may or may not be kept in
    /// `unused_entries` (the protocol-independent online count is derived from the list).
    pub fn expected(&self) -> Value {
        let mut unused: BTreeMap<String, String> = self.extras.iter().cloned().collect();
        unused.insert("numplayers".into(), self.players.len().to_string());
        json!({
            "name": self.hostname,
            "map": self.mapname,
            "map_title": self.maptitle,
            "admin_contact": self.admin_email,
            "admin_name": self.admin_name.as_ref().map(|(_, n)| n.clone()),
            "has_password": password_truth(&self.password),
            "game_mode": self.gametype,
            "game_version": self.gamever,
            "players_maximum": self.maxplayers,
            "players_online": self.players.len(),
            "players_minimum": self.minplayers,
            "players": self.players.iter().map(|p| json!({
                "name": p.name, "team": p.team, "ping": p.ping, "face": p.face, "skin": p.skin, "mesh": p.mesh,
                "score": p.frags, "deaths": p.deaths, "health": p.health, "secret": p.secret,
            })).collect::<Vec<_>>(),
            "tournament": self.tournament.as_ref().map_or(Value::Null, |s| json!(s.to_lowercase() == "true")),
            "unused_entries": unused,
        })
    }
}

/// Remove from both sides what the property leaves open.
pub fn gs1_normalise(expected: &mut Value, observed: &mut Value) {
    // tournament is only checked when the server sent it
    if expected["tournament"].is_null() {
        if let Some(o) = observed.as_object_mut() {
            o.insert("tournament".into(), Value::Null);
        }
    }
    // numplayers: either consumed or left in unused_entries
    let obs_has = observed["unused_entries"].get("numplayers").is_some();
    if !obs_has {
        if let Some(u) = expected["unused_entries"].as_object_mut() {
            u.remove("numplayers");
        }
    }
}

pub struct Gs1Server {
    pub datagrams: Vec<Vec<u8>>,
    pub order: Option<Vec<usize>>,
    pub dup: Option<(usize, usize)>,
    pub outcomes: Vec<Outcome>,
    pub attempts: usize,
    pub requests: Vec<Vec<u8>>,
}

impl Gs1Server {
    pub fn new(datagrams: Vec<Vec<u8>>) -> Self {
        Self { datagrams, order: None, dup: None, outcomes: Vec::new(), attempts: 0, requests: Vec::new() }
    }
}

fn send_ordered(cx: &mut Cx, from: SocketAddr, frags: &[Vec<u8>], order: &Option<Vec<usize>>, dup: &Option<(usize, usize)>) {
    let mut seq: Vec<usize> = match order {
        Some(o) if o.len() == frags.len() => o.clone(),
        _ => (0 .. frags.len()).collect(),
    };
    if let Some((frag, at)) = dup {
        if *frag < frags.len() {
            seq.insert((*at).min(seq.len()), *frag);
        }
    }
    if frags.len() > 1 {
        cx.w.stats.probe("multi_datagram_reply");
    }
    for (rank, i) in seq.iter().enumerate() {
        cx.udp_send_after(from, frags[*i].clone(), rank as u64 * 10_000);
    }
}

impl Server for Gs1Server {
    fn on_udp(&mut self, cx: &mut Cx, from: SocketAddr, data: &[u8]) {
        self.requests.push(data.to_vec());
        if data != b"\\status\\xserverquery" {
            return;
        }
        let n = self.attempts;
        self.attempts += 1;
        match self.outcomes.get(n).copied().unwrap_or(Outcome::Valid) {
            Outcome::Silent => {}
            Outcome::Malformed => cx.udp_send(from, b"\\queryid\\a.b.c\\final\\".to_vec()),
            Outcome::Valid => send_ordered(cx, from, &self.datagrams.clone(), &self.order, &self.dup),
            Outcome::Partial => {
                for d in proper_subset(cx, &self.datagrams.clone()) {
                    cx.udp_send(from, d);
                }
            }
        }
    }

    fn as_any(&mut self) -> &mut dyn std::any::Any { self }
}

// ====================================================================== GS2

#[derive(Clone, Debug)]
pub struct Gs2State {
    pub hostname: String,
    pub mapname: String,
    pub password: String,
    pub maxplayers: u32,
    pub numplayers: Option<u32>,
    pub minplayers: Option<u32>,
    pub extras: Vec<(String, String)>,
    pub players: Vec<(String, u16, u16, u16)>,
    pub extra_player_field: bool,
    pub extra_team_field: Option<Vec<String>>,
    pub teams: Vec<(String, u16)>,
}

const GS2_KNOWN: &[&str] = &["hostname", "mapname", "password", "maxplayers", "numplayers", "minplayers"];

fn z(o: &mut Vec<u8>, s: &str) {
    o.extend_from_slice(s.as_bytes());
    o.push(0);
}

impl Gs2State {
    pub fn generate(t: &mut Tape, max_players: u64) -> Self {
        let np = gen::count(t, max_players);
        let nt = gen::count(t, 8);
        let players: Vec<(String, u16, u16, u16)> = (0 .. np).map(|_| (gs_str(t, 24), gen::u16_(t), gen::u16_(t), gen::u16_(t))).collect();
        let teams: Vec<(String, u16)> = (0 .. nt).map(|_| (gs_str(t, 16), gen::u16_(t))).collect();
        let listed = players.len() as u32;
        Self {
            hostname: gs_str(t, 60),
            mapname: gs_str(t, 30),
            password: (*t.pick(DATA, &["0", "1"])).to_string(),
            maxplayers: gen::u32_(t),
            numplayers: match t.draw(DATA, 4) {
                0 => None,
                1 => Some(listed),
                2 => Some(listed + 1 + t.draw(DATA, 50) as u32),
                _ => Some(t.draw(DATA, listed as u64 + 1) as u32),
            },
            minplayers: (t.draw(DATA, 2) == 1).then(|| gen::u32_(t)),
            // a variable may have an empty value (it is still a variable of the server)
            extras: gen_extras(t, GS2_KNOWN, 20),
            players,
            extra_player_field: t.draw(DATA, 3) == 0,
            // a column the client has no field for, last in the teams table: its cells may be empty, and the
            // last of them is then the last byte of the datagram
            extra_team_field: (t.draw(DATA, 4) == 0).then(|| (0 .. nt).map(|_| (*t.pick(DATA, &["", "", "red", "0"])).to_string()).collect()),
            teams,
        }
    }

    pub fn pairs(&self) -> Vec<(String, String)> {
        let mut v: Vec<(String, String)> = vec![
            ("hostname".into(), self.hostname.clone()),
            ("mapname".into(), self.mapname.clone()),
            ("password".into(), self.password.clone()),
            ("maxplayers".into(), self.maxplayers.to_string()),
        ];
        if let Some(n) = self.numplayers {
            v.push(("numplayers".into(), n.to_string()));
        }
        if let Some(n) = self.minplayers {
            v.push(("minplayers".into(), n.to_string()));
        }
        v.extend(self.extras.iter().cloned());
        v
    }

    pub fn encode(&self, id: [u8; 4]) -> Vec<u8> {
        let mut o = vec![0];
        o.extend_from_slice(&id);
        for (k, v) in self.pairs() {
            z(&mut o, &k);
            z(&mut o, &v);
        }
        o.push(0);
        // players table
        o.push(0);
        o.push(self.players.len() as u8);
        if !self.players.is_empty() {
            for f in ["player_", "score_", "ping_", "team_"] {
                z(&mut o, f);
            }
            if self.extra_player_field {
                z(&mut o, "deaths_");
            }
            o.push(0);
            for (n, s, p, tm) in &self.players {
                z(&mut o, n);
                z(&mut o, &s.to_string());
                z(&mut o, &p.to_string());
                z(&mut o, &tm.to_string());
                if self.extra_player_field {
                    z(&mut o, "7");
                }
            }
        }
        // teams table
        o.push(0);
        o.push(self.teams.len() as u8);
        if !self.teams.is_empty() {
            z(&mut o, "team_t");
            z(&mut o, "score_t");
            if self.extra_team_field.is_some() {
                z(&mut o, "color_t");
            }
            o.push(0);
            for (i, (n, s)) in self.teams.iter().enumerate() {
                z(&mut o, n);
                z(&mut o, &s.to_string());
                if let Some(c) = &self.extra_team_field {
                    z(&mut o, c.get(i).map(|x| x.as_str()).unwrap_or(""));
                }
            }
        }
        o
    }

    /// GameSpy 2 has no multi-datagram transport: keep the reply within one MTU.
    pub fn fit(&mut self) { self.fit_to(1400) }

    /// Keep the reply within `limit` bytes (a datagram above the MTU travels in IP fragments).
    pub fn fit_to(&mut self, limit: usize) {
        while self.encode([0, 0, 0, 1]).len() > limit {
            if !self.players.is_empty() {
                self.players.pop();
            } else if !self.extras.is_empty() {
                self.extras.pop();
            } else {
                self.teams.pop();
            }
        }
        if let Some(n) = self.numplayers {
            let _ = n;
        }
    }

    pub fn expected(&self) -> Value {
        let listed = self.players.len() as u32;
        let online = self.numplayers.map_or(listed, |n| n.max(listed));
        let unused: BTreeMap<String, String> = self.extras.iter().cloned().collect();
        json!({
            "name": self.hostname,
            "map": self.mapname,
            "has_password": self.password == "1",
            "teams": self.teams.iter().map(|(n, s)| json!({"name": n, "score": s})).collect::<Vec<_>>(),
            "players_maximum": self.maxplayers,
            "players_online": online,
            "players_minimum": self.minplayers,
            "players": self.players.iter().map(|(n, s, p, t)| json!({"name": n, "score": s, "ping": p, "team_index": t})).collect::<Vec<_>>(),
            "unused_entries": unused,
        })
    }
}

pub struct Gs2Server {
    pub st: Gs2State,
    pub outcomes: Vec<Outcome>,
    pub attempts: usize,
    pub requests: Vec<Vec<u8>>,
}

impl Server for Gs2Server {
    fn on_udp(&mut self, cx: &mut Cx, from: SocketAddr, data: &[u8]) {
        self.requests.push(data.to_vec());
        if data.len() != 10 || data[.. 3] != [0xfe, 0xfd, 0x00] {
            return;
        }
        let id: [u8; 4] = data[3 .. 7].try_into().unwrap();
        let n = self.attempts;
        self.attempts += 1;
        match self.outcomes.get(n).copied().unwrap_or(Outcome::Valid) {
            Outcome::Silent | Outcome::Partial => {}
            Outcome::Malformed => {
                match cx.draw(3) {
                    0 => cx.udp_send(from, vec![0x05, id[0], id[1]]),
                    1 => {
                        // the complete valid reply with another request id
                        let d = self.st.encode([id[0], id[1], id[2], id[3] ^ 0x44]);
                        cx.udp_send(from, d);
                    }
                    _ => {
                        let mut d = self.st.encode(id);
                        d[0] = 9;
                        cx.udp_send(from, d);
                    }
                }
            }
            Outcome::Valid => {
                let d = self.st.encode(id);
                cx.udp_send(from, d);
            }
        }
    }

    fn as_any(&mut self) -> &mut dyn std::any::Any { self }
}

// ====================================================================== GS3

#[derive(Clone, Debug)]
pub struct Gs3Player {
    pub name: String,
    pub score: i32,
    pub ping: u16,
    pub team: u8,
    pub deaths: u32,
    pub skill: u32,
}

#[derive(Clone, Debug)]
pub struct Gs3State {
    pub hostname: String,
    pub mapname: String,
    pub gametype: String,
    pub gamever: String,
    pub password: String,
    pub maxplayers: u32,
    pub numplayers: Option<u32>,
    pub minplayers: Option<u8>,
    pub tournament: Option<String>,
    pub extras: Vec<(String, String)>,
    pub players: Vec<Gs3Player>,
    pub teams: Vec<(String, i32)>,
    pub challenge: i32,
    pub challenge_text: String,
    /// JC2M flavour: version / description variables and a binary player list
    pub jc2m: Option<Vec<(String, String, u16)>>,
    pub version: String,
    pub description: String,
    /// per-player sections the response type has no member for: "pid_" (a name the client knows) and
    /// "kills_" (one it does not); numeric values
    pub extra_sections: bool,
    /// as real servers do: where a packet ends inside a section, the value that did not fit is sent cut
    /// off at the end of the packet and sent again, whole, at the start of the next one (whose offset
    /// byte names its position). Only for in-order delivery: off unless a check turns it on.
    pub cut_values_resent: bool,
}

const GS3_KNOWN: &[&str] = &[
    "hostname", "mapname", "gametype", "gamever", "password", "maxplayers", "numplayers", "minplayers", "tournament", "version", "description",
];

impl Gs3State {
    pub fn generate(t: &mut Tape, max_players: u64, jc2m: bool) -> Self {
        let np = gen::count(t, max_players);
        let nt = gen::count(t, 8);
        let players: Vec<Gs3Player> = (0 .. np)
            .map(|_| {
                Gs3Player {
                    name: gs_str1(t, 24),
                    score: gen::i32_(t),
                    ping: gen::u16_(t),
                    team: gen::u8_(t),
                    deaths: gen::u32_(t),
                    skill: gen::u32_(t),
                }
            })
            .collect();
        let listed = if jc2m { 0 } else { players.len() as u32 };
        let challenge = match t.draw(DATA, 8) {
            0 => 0,
            1 => i32::MIN,
            2 => i32::MAX,
            3 => -1,
            _ => gen::i32_(t),
        };
        let challenge_text = if challenge > 0 && t.draw(DATA, 8) == 0 { format!("+{challenge}") } else { challenge.to_string() };
        let jc = jc2m.then(|| {
            let n = gen::count(t, 100);
            (0 .. n).map(|_| (gs_str(t, 24), gen::word(t, 17), gen::u16_(t))).collect::<Vec<_>>()
        });
        let listed = jc.as_ref().map_or(listed, |v| v.len() as u32);
        Self {
            hostname: gs_str(t, 60),
            mapname: gs_str(t, 30),
            gametype: gs_str(t, 20),
            gamever: gs_str(t, 12),
            password: gen_password(t),
            maxplayers: gen::u32_(t),
            numplayers: match t.draw(DATA, 4) {
                0 => None,
                1 => Some(listed),
                2 => Some(listed + 1 + t.draw(DATA, 50) as u32),
                _ => Some(t.draw(DATA, listed as u64 + 1) as u32),
            },
            minplayers: (t.draw(DATA, 2) == 1).then(|| gen::u8_(t)),
            tournament: (t.draw(DATA, 2) == 1).then(|| (*t.pick(DATA, &["true", "false", "True"])).to_string()),
            extras: gen_extras(t, GS3_KNOWN, 20),
            players: if jc2m { Vec::new() } else { players },
            teams: if jc2m { Vec::new() } else { (0 .. nt).map(|_| (gs_str1(t, 16), gen::i32_(t))).collect() },
            challenge,
            challenge_text,
            jc2m: jc,
            version: gs_str(t, 12),
            description: gs_str(t, 40),
            extra_sections: t.draw(DATA, 4) == 0,
            cut_values_resent: false,
        }
    }

    pub fn pairs(&self) -> Vec<(String, String)> {
        let mut v: Vec<(String, String)> = vec![("hostname".into(), self.hostname.clone()), ("password".into(), self.password.clone()), ("maxplayers".into(), self.maxplayers.to_string())];
        if self.jc2m.is_some() {
            v.push(("version".into(), self.version.clone()));
            v.push(("description".into(), self.description.clone()));
        } else {
            v.push(("mapname".into(), self.mapname.clone()));
            v.push(("gametype".into(), self.gametype.clone()));
            v.push(("gamever".into(), self.gamever.clone()));
            if let Some(x) = &self.tournament {
                v.push(("tournament".into(), x.clone()));
            }
            if let Some(n) = self.minplayers {
                v.push(("minplayers".into(), n.to_string()));
            }
        }
        if let Some(n) = self.numplayers {
            v.push(("numplayers".into(), n.to_string()));
        }
        v.extend(self.extras.iter().cloned());
        v
    }

    /// Field sections as (type byte, field name, values).
    fn fields(&self) -> Vec<(u8, &'static str, Vec<String>)> {
        let p = &self.players;
        let mut f: Vec<(u8, &'static str, Vec<String>)> = Vec::new();
        if !p.is_empty() {
            f.push((1, "player_", p.iter().map(|x| x.name.clone()).collect()));
            f.push((1, "score_", p.iter().map(|x| x.score.to_string()).collect()));
            f.push((1, "ping_", p.iter().map(|x| x.ping.to_string()).collect()));
            f.push((1, "team_", p.iter().map(|x| x.team.to_string()).collect()));
            f.push((1, "deaths_", p.iter().map(|x| x.deaths.to_string()).collect()));
            f.push((1, "skill_", p.iter().map(|x| x.skill.to_string()).collect()));
            if self.extra_sections {
                f.push((1, "pid_", p.iter().enumerate().map(|(i, _)| (1000 + i).to_string()).collect()));
                f.push((1, "kills_", p.iter().map(|x| x.score.to_string()).collect()));
            }
        }
        if !self.teams.is_empty() {
            f.push((2, "team_t", self.teams.iter().map(|x| x.0.clone()).collect()));
            f.push((2, "score_t", self.teams.iter().map(|x| x.1.to_string()).collect()));
        }
        f
    }

    /// Payloads of `packets` splitnum packets (without the per-packet header).
    pub fn payloads(&self, t: &mut Tape, packets: usize) -> Vec<Vec<u8>> {
        let mut first = Vec::new();
        for (k, v) in self.pairs() {
            z(&mut first, &k);
            z(&mut first, &v);
        }
        first.push(0);
        if let Some(list) = &self.jc2m {
            first.extend_from_slice(&(list.len() as u16).to_be_bytes());
            for (n, s, p) in list {
                z(&mut first, n);
                z(&mut first, s);
                first.extend_from_slice(&p.to_be_bytes());
            }
            return vec![first];
        }
        // a list of "units": (type, field, offset, values) that may be cut between values
        let fields = self.fields();
        let total_values: usize = fields.iter().map(|f| f.2.len()).sum();
        let packets = packets.clamp(1, total_values.max(1));
        let mut cuts: Vec<usize> = (0 .. packets - 1).map(|_| 1 + t.draw(DATA, total_values.max(2) as u64 - 1) as usize).collect();
        cuts.sort();
        cuts.dedup();
        let mut out: Vec<Vec<u8>> = vec![first];
        let mut seen = 0usize;
        let mut cur_type = 0u8;
        for (ty, name, values) in &fields {
            let mut offset = 0usize;
            while offset < values.len() {
                // does a cut fall inside the remaining values of this field?
                let mut next_cut = cuts.iter().copied().find(|c| *c > seen && *c < seen + (values.len() - offset));
                let mut take = next_cut.map_or(values.len() - offset, |c| c - seen);
                // size budget: a packet payload stays below 1300 bytes
                let room = 1300usize.saturating_sub(out.last().unwrap().len() + name.len() + 4);
                let mut fit = 0usize;
                let mut used = 0usize;
                for v in &values[offset .. offset + take] {
                    if used + v.len() + 1 > room {
                        break;
                    }
                    used += v.len() + 1;
                    fit += 1;
                }
                if fit < take {
                    if fit == 0 && !out.last().unwrap().is_empty() && out.len() > 0 && room < 200 {
                        // start a fresh packet first
                        out.push(Vec::new());
                        cur_type = 0;
                        continue;
                    }
                    take = fit.max(1);
                    next_cut = Some(seen + take);
                }
                let cur = out.last_mut().unwrap();
                if cur_type != *ty {
                    cur.push(*ty);
                    cur_type = *ty;
                }
                z(cur, name);
                cur.push(offset as u8);
                for v in &values[offset .. offset + take] {
                    z(cur, v);
                }
                if self.cut_values_resent && next_cut.is_some() && offset + take < values.len() {
                    // the beginning of the value that did not fit
                    let next = &values[offset + take];
                    let n = next.chars().count();
                    if n >= 2 {
                        z(cur, &next.chars().take((n / 2).max(1)).collect::<String>());
                    }
                }
                cur.push(0);
                offset += take;
                seen += take;
                if next_cut.is_some() {
                    out.push(Vec::new());
                    cur_type = 0;
                }
            }
            // a cut exactly at a field boundary
            if cuts.contains(&seen) && seen < total_values {
                out.push(Vec::new());
                cur_type = 0;
            }
        }
        if let Some(last) = out.last_mut() {
            last.push(0);
        }
        out.retain(|p| !p.is_empty());
        out
    }

    pub fn expected(&self) -> Value {
        let listed = self.players.len() as u32;
        let online = self.numplayers.map_or(listed, |n| n.max(listed));
        let unused: BTreeMap<String, String> = self.extras.iter().cloned().collect();
        json!({
            "name": self.hostname,
            "map": self.mapname,
            "has_password": password_truth(&self.password),
            "game_mode": self.gametype,
            "game_version": self.gamever,
            "players_maximum": self.maxplayers,
            "players_online": online,
            "players_minimum": self.minplayers,
            "players": self.players.iter().map(|p| json!({"name": p.name, "score": p.score, "ping": p.ping, "team": p.team, "deaths": p.deaths, "skill": p.skill})).collect::<Vec<_>>(),
            "teams": self.teams.iter().map(|(n, s)| json!({"name": n, "score": s})).collect::<Vec<_>>(),
            "tournament": self.tournament.as_ref().map_or(Value::Null, |s| json!(s.to_lowercase() == "true")),
            "unused_entries": unused,
        })
    }

    pub fn expected_jc2m(&self) -> Value {
        let list = self.jc2m.clone().unwrap_or_default();
        let listed = list.len() as u32;
        json!({
            "game_version": self.version,
            "description": self.description,
            "name": self.hostname,
            "has_password": password_truth(&self.password),
            "players": list.iter().map(|(n, s, p)| json!({"name": n, "steam_id": s, "ping": p})).collect::<Vec<_>>(),
            "players_maximum": self.maxplayers,
            "players_online": self.numplayers.map_or(listed, |n| n.max(listed)),
        })
    }
}

pub struct Gs3Server {
    pub st: Gs3State,
    pub payloads: Vec<Vec<u8>>,
    pub order: Option<Vec<usize>>,
    pub dup: Option<(usize, usize)>,
    /// outcome of the i-th handshake+data unit: applied to the handshake (even index
    /// semantics are up to the caller) — `hs_outcomes[i]` for the i-th handshake,
    /// `data_outcomes[i]` for the i-th data request
    pub hs_outcomes: Vec<Outcome>,
    pub data_outcomes: Vec<Outcome>,
    pub handshakes: usize,
    pub data_requests: usize,
    pub requests: Vec<Vec<u8>>,
    pub wrong_challenge: u32,
    pub expected_payload: [u8; 4],
}

impl Gs3Server {
    pub fn new(st: Gs3State, payloads: Vec<Vec<u8>>) -> Self {
        let expected_payload = if st.jc2m.is_some() { [0xff, 0xff, 0xff, 0x02] } else { [0xff, 0xff, 0xff, 0x01] };
        Self {
            st,
            payloads,
            order: None,
            dup: None,
            hs_outcomes: Vec::new(),
            data_outcomes: Vec::new(),
            handshakes: 0,
            data_requests: 0,
            requests: Vec::new(),
            wrong_challenge: 0,
            expected_payload,
        }
    }

    pub fn datagrams(&self, session: [u8; 4]) -> Vec<Vec<u8>> {
        let n = self.payloads.len();
        self.payloads
            .iter()
            .enumerate()
            .map(|(i, p)| {
                let mut d = vec![0];
                d.extend_from_slice(&session);
                d.extend_from_slice(b"splitnum\0");
                d.push(i as u8 | if i + 1 == n { 0x80 } else { 0 });
                d.push(i as u8);
                d.extend_from_slice(p);
                d
            })
            .collect()
    }
}

impl Server for Gs3Server {
    fn on_udp(&mut self, cx: &mut Cx, from: SocketAddr, data: &[u8]) {
        self.requests.push(data.to_vec());
        if data.len() < 7 || data[.. 2] != [0xfe, 0xfd] {
            return;
        }
        let session: [u8; 4] = data[3 .. 7].try_into().unwrap();
        match data[2] {
            9 => {
                let n = self.handshakes;
                self.handshakes += 1;
                match self.hs_outcomes.get(n).copied().unwrap_or(Outcome::Valid) {
                    Outcome::Silent | Outcome::Partial => {}
                    Outcome::Malformed => {
                        // truncated, or complete but for another session, or of the wrong kind
                        let mut d = vec![9];
                        match cx.draw(4) {
                            0 => d.push(session[0]),
                            3 => {
                                // complete, for this session, but the challenge is not a number
                                d.extend_from_slice(&session);
                                d.extend_from_slice(*[&b"12ab"[..], &b"x"[..], &b"1 2"[..], &b"99999999999"[..], &b"--1"[..]].get(cx.draw(5) as usize).unwrap());
                                d.push(0);
                            }
                            v => {
                                if v == 1 {
                                    d.extend_from_slice(&[session[0], session[1], session[2], session[3] ^ 0x5a]);
                                } else {
                                    d[0] = 0;
                                    d.extend_from_slice(&session);
                                }
                                d.extend_from_slice(self.st.challenge_text.as_bytes());
                                d.push(0);
                            }
                        }
                        cx.udp_send(from, d);
                    }
                    Outcome::Valid => {
                        let mut d = vec![9];
                        d.extend_from_slice(&session);
                        d.extend_from_slice(self.st.challenge_text.as_bytes());
                        d.push(0);
                        cx.udp_send(from, d);
                    }
                }
            }
            0 => {
                // with a challenge: 7 + 4 + 4 bytes, without: 7 + 4
                let body = &data[7 ..];
                let (chal, payload): (Option<i32>, &[u8]) = if body.len() == 8 {
                    (Some(i32::from_be_bytes(body[.. 4].try_into().unwrap())), &body[4 ..])
                } else {
                    (None, body)
                };
                // a server without challenge ("0") expects no challenge field; one with a challenge expects it
                let ok = match chal {
                    Some(c) => self.st.challenge != 0 && c == self.st.challenge,
                    None => self.st.challenge == 0,
                };
                if !ok || payload != self.expected_payload {
                    self.wrong_challenge += 1;
                    return;
                }
                let n = self.data_requests;
                self.data_requests += 1;
                match self.data_outcomes.get(n).copied().unwrap_or(Outcome::Valid) {
                    Outcome::Partial => {
                        // some of the packets of several (not all), then nothing
                        let d = self.datagrams(session);
                        for d in proper_subset(cx, &d) {
                            cx.udp_send(from, d);
                        }
                    }
                    Outcome::Silent => {}
                    Outcome::Malformed => {
                        match cx.draw(3) {
                            0 => cx.udp_send(from, vec![0, session[0], session[1]]),
                            v => {
                                // the complete valid reply, but for another session / of the handshake kind
                                let foreign = if v == 1 { [session[0], session[1], session[2] ^ 0x21, session[3]] } else { session };
                                let mut d = self.datagrams(foreign);
                                if v == 2 {
                                    for p in &mut d {
                                        p[0] = 9;
                                    }
                                }
                                d.truncate(1);
                                cx.udp_send(from, d.remove(0));
                            }
                        }
                    }
                    Outcome::Valid => {
                        let d = self.datagrams(session);
                        send_ordered(cx, from, &d, &self.order, &self.dup);
                    }
                }
            }
            _ => {}
        }
    }

    fn as_any(&mut self) -> &mut dyn std::any::Any { self }
}

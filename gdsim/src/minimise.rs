//! Tape shrinking: delete blocks, zero entries, halve values while the same
//! violation signature persists. 0 is always the simplest choice and a tape
//! read past its end yields 0, so truncation and zeroing are always legal.

use crate::prop::Prop;
use crate::tape::{Tape, TapeData};

const BUDGET: usize = 400;
/// wall-clock cap per minimisation (heavy multi-run cases)
const TIME_CAP: std::time::Duration = std::time::Duration::from_secs(4);

fn still_fails(prop: &dyn Prop, idx: u64, t: &TapeData, sig: &str) -> bool {
    let (out, _) = prop.run_case(idx, Tape::replay(t.clone()), false);
    out.violations.iter().any(|v| v.signature == sig)
}

pub fn shrink(prop: &dyn Prop, idx: u64, tape: &TapeData, sig: &str) -> TapeData {
    let mut best = tape.clone();
    let mut budget = BUDGET;
    let started = std::time::Instant::now();
    let try_it = |cand: TapeData, best: &mut TapeData, budget: &mut usize| -> bool {
        if started.elapsed() > TIME_CAP {
            *budget = 0;
        }
        if *budget == 0 || cand == *best {
            return false;
        }
        *budget -= 1;
        if still_fails(prop, idx, &cand, sig) {
            *best = cand;
            true
        } else {
            false
        }
    };
    if !still_fails(prop, idx, &best, sig) {
        return best; // not reproducible from its own tape: keep as is, the caller reports it
    }
    // 1. truncate lanes (everything past the end reads as 0)
    for lane in 0 .. best.lanes.len() {
        let mut len = best.lanes[lane].len();
        while len > 0 && budget > 0 {
            let new_len = len / 2;
            let mut c = best.clone();
            c.lanes[lane].truncate(new_len);
            if try_it(c, &mut best, &mut budget) {
                len = new_len;
            } else {
                break;
            }
        }
    }
    // 2. zero blocks
    for lane in 0 .. best.lanes.len() {
        let mut block = best.lanes[lane].len().next_power_of_two().max(1);
        while block >= 1 && budget > 0 {
            let mut start = 0;
            while start < best.lanes[lane].len() && budget > 0 {
                // (once the budget or the time cap is used up nothing more is tried: on a tape of hundreds
                // of thousands of entries even building the candidates would take minutes)
                if started.elapsed() > TIME_CAP {
                    budget = 0;
                    break;
                }
                let end = (start + block).min(best.lanes[lane].len());
                if best.lanes[lane][start .. end].iter().any(|v| *v != 0) {
                    let mut c = best.clone();
                    for v in &mut c.lanes[lane][start .. end] {
                        *v = 0;
                    }
                    try_it(c, &mut best, &mut budget);
                }
                start = end;
            }
            if block == 1 {
                break;
            }
            block /= 2;
        }
    }
    // 3. delete single entries (shifts the rest left) and halve values
    for lane in 0 .. best.lanes.len() {
        let mut i = 0;
        while i < best.lanes[lane].len() && budget > 0 {
            if started.elapsed() > TIME_CAP {
                budget = 0;
                break;
            }
            if best.lanes[lane][i] != 0 {
                let mut c = best.clone();
                c.lanes[lane][i] /= 2;
                if !try_it(c, &mut best, &mut budget) {
                    let mut c = best.clone();
                    c.lanes[lane][i] = 1;
                    try_it(c, &mut best, &mut budget);
                }
            }
            i += 1;
        }
    }
    // drop trailing zeros
    for lane in &mut best.lanes {
        while lane.last() == Some(&0) {
            lane.pop();
        }
    }
    best
}

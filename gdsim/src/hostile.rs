//! Hostile servers: a finite reply script followed by silence (UDP) or
//! FIN / stall (TCP). Scripts are generated three ways: (a) a valid reply
//! sequence for the protocol, damaged; (b) a valid header followed by random
//! bytes; (c) random bytes. The script is consumed by the real conversation.

use crate::tape::{Tape, DATA};
use crate::world::{Cx, HttpHandler, Server, World};
use std::net::SocketAddr;

#[derive(Clone, Copy, Debug, PartialEq, Eq, Hash, PartialOrd, Ord)]
pub enum Fam {
    Valve,
    ValveGoldSrc,
    ValveShip,
    Ffow,
    Gs1,
    Gs2,
    Gs3,
    Jc2m,
    Quake1,
    Quake2,
    Quake3,
    Unreal2,
    McJava,
    McBedrock,
    McLegacy16,
    McLegacy14,
    McLegacyB18,
    Mindustry,
    Savage2,
    Eco,
    /// Eco over a real HTTP/1.1 exchange (the HTTP client itself runs against the script)
    EcoHttp,
    Master,
}

pub struct Bz2Bomb {
    pub len: usize,
    pub crc32: u32,
    pub bz2: Vec<u8>,
}

/// bzip2 streams of 1 / 20 / 70 / 200 MiB of zeros (45 to 177 bytes each; tools/bz2bombs.py).
pub fn bz2_bombs() -> &'static [Bz2Bomb] {
    static B: std::sync::OnceLock<Vec<Bz2Bomb>> = std::sync::OnceLock::new();
    B.get_or_init(|| {
        let v: serde_json::Value = serde_json::from_str(include_str!("../data/bz2bombs.json")).expect("bz2bombs.json");
        v.as_array()
            .unwrap()
            .iter()
            .map(|e| Bz2Bomb { len: e["len"].as_u64().unwrap() as usize, crc32: e["crc32"].as_u64().unwrap() as u32, bz2: hex::decode(e["bz2_hex"].as_str().unwrap()).unwrap() })
            .collect()
    })
}

fn cs(o: &mut Vec<u8>, s: &str) {
    o.extend_from_slice(s.as_bytes());
    o.push(0);
}

fn small_str(t: &mut Tape) -> String {
    let n = t.draw(DATA, 12) as usize;
    (0 .. n)
        .map(|_| b"abcXYZ019 _-\xc3"[t.draw(DATA, 13) as usize])
        .map(|b| if b == 0xc3 { 'é' } else { b as char })
        .collect()
}

fn varint(mut v: u32) -> Vec<u8> {
    let mut o = Vec::new();
    loop {
        let b = (v & 0x7f) as u8;
        v >>= 7;
        if v == 0 {
            o.push(b);
            return o;
        }
        o.push(b | 0x80);
    }
}

fn utf16be(s: &str) -> Vec<u8> { s.encode_utf16().flat_map(|u| u.to_be_bytes()).collect() }

fn u2str(o: &mut Vec<u8>, s: &str) {
    // Unreal 2 Latin-1 string: length byte counts the trailing NUL
    let b: Vec<u8> = s.bytes().filter(|b| *b < 0x80).take(100).collect();
    o.push((b.len() + 1) as u8);
    o.extend_from_slice(&b);
    o.push(0);
}

/// A valid reply sequence (in conversation order) for a small random state.
pub fn templates(t: &mut Tape, fam: Fam) -> Vec<Vec<u8>> {
    let s = small_str;
    match fam {
        Fam::Valve | Fam::ValveGoldSrc | Fam::ValveShip => {
            let ship = fam == Fam::ValveShip;
            let mut info = vec![0xff, 0xff, 0xff, 0xff, 0x49, 17];
            cs(&mut info, &s(t));
            cs(&mut info, &s(t));
            cs(&mut info, &s(t));
            cs(&mut info, &s(t));
            info.extend_from_slice(&[0x60, 0x09, 3, 16, 1, b'd', b'l', 0, 1]);
            if ship {
                info.extend_from_slice(&[1, 2, 3]);
            }
            cs(&mut info, "1.0");
            info.push(0xb1);
            info.extend_from_slice(&27015u16.to_le_bytes());
            info.extend_from_slice(&7u64.to_le_bytes());
            cs(&mut info, "kw");
            info.extend_from_slice(&2400u64.to_le_bytes());
            let chal = vec![0xff, 0xff, 0xff, 0xff, 0x41, 1, 2, 3, 4];
            let n = 1 + t.draw(DATA, 3) as u8;
            let mut players = vec![0xff, 0xff, 0xff, 0xff, 0x44, n];
            for i in 0 .. n {
                players.push(i);
                cs(&mut players, &s(t));
                players.extend_from_slice(&5i32.to_le_bytes());
                players.extend_from_slice(&1.5f32.to_le_bytes());
            }
            if ship {
                for _ in 0 .. n {
                    players.extend_from_slice(&[1, 0, 0, 0, 2, 0, 0, 0]);
                }
            }
            let mut rules = vec![0xff, 0xff, 0xff, 0xff, 0x45, 2, 0];
            for _ in 0 .. 2 {
                cs(&mut rules, &s(t));
                cs(&mut rules, &s(t));
            }
            // a split version of the rules reply (two fragments)
            let mid = rules.len() / 2;
            let mk = |num: u8, chunk: &[u8], gold: bool| {
                let mut d = vec![0xfe, 0xff, 0xff, 0xff, 9, 0, 0, 0];
                if gold {
                    d.push((num << 4) | 2);
                } else {
                    d.extend_from_slice(&[2, num, 0xe0, 0x04]);
                }
                d.extend_from_slice(chunk);
                d
            };
            let gold = fam == Fam::ValveGoldSrc;
            match t.draw(DATA, 4) {
                3 if !gold => {
                    // the players answer as a bzip2-compressed split response whose stream inflates to far
                    // more than it announces (or exactly to what it announces, far above any real answer)
                    let b = &bz2_bombs()[t.draw(DATA, bz2_bombs().len() as u64) as usize];
                    let announced: u32 = match t.draw(DATA, 8) {
                        0 => 0,
                        1 => 100,
                        2 => 16 << 20,
                        3 => (16 << 20) + 1,
                        4 => u32::MAX,
                        5 => 4 << 20,
                        6 => (4 << 20) + 1,
                        _ => b.len as u32,
                    };
                    let total = 1 + t.draw(DATA, 2) as u8;
                    let mut d = vec![0xfe, 0xff, 0xff, 0xff, 9, 0, 0, 0x80, total, 0, 0xe0, 0x04];
                    d.extend_from_slice(&announced.to_le_bytes());
                    d.extend_from_slice(&b.crc32.to_le_bytes());
                    d.extend_from_slice(&b.bz2);
                    let mut items = vec![info, d];
                    if total == 2 {
                        let second = vec![0xfe, 0xff, 0xff, 0xff, 9, 0, 0, 0x80, 2, 1, 0xe0, 0x04];
                        // either arrival order
                        if t.draw(DATA, 2) == 0 {
                            items.push(second);
                        } else {
                            items.insert(1, second);
                        }
                    }
                    items.push(rules);
                    items
                }
                0 => vec![info, chal.clone(), players, chal, rules],
                1 => vec![chal.clone(), info, chal.clone(), players, chal, mk(0, &rules[.. mid], gold), mk(1, &rules[mid ..], gold)],
                _ => vec![info, players, rules],
            }
        }
        Fam::Ffow => {
            let mut d = vec![0xff, 0xff, 0xff, 0xff, 0x46, 2];
            for _ in 0 .. 6 {
                cs(&mut d, &s(t));
            }
            d.extend_from_slice(&[0, 0, 3, 16, b'd', b'w', 0, 1, 60, 1, 5, 0x10, 0x00]);
            vec![vec![0xff, 0xff, 0xff, 0xff, 0x41, 9, 9, 9, 9], d]
        }
        Fam::Gs1 => {
            let a = format!(
                "\\hostname\\{}\\mapname\\{}\\gametype\\dm\\gamever\\1\\maxplayers\\8\\numplayers\\1\\password\\0\\player_0\\{}\\frags_0\\3\\ping_0\\40\\team_0\\1\\queryid\\5.1",
                s(t),
                s(t),
                s(t)
            );
            let b = "\\AdminName\\x\\minplayers\\0\\queryid\\5.2\\final\\".to_string();
            vec![a.into_bytes(), b.into_bytes()]
        }
        Fam::Gs2 => {
            let mut d = vec![0, 0, 0, 0, 1];
            for (k, v) in [("hostname", s(t)), ("mapname", s(t)), ("password", "0".into()), ("maxplayers", "8".into()), ("numplayers", "1".into())] {
                cs(&mut d, k);
                cs(&mut d, &v);
            }
            d.push(0);
            if t.draw(DATA, 4) == 0 {
                // a table that announces many rows and a great many columns and then simply ends (or
                // goes on for a few cells): rows x columns cells are announced, almost none are sent
                d.push(0);
                d.push(*t.pick(DATA, &[255u8, 254, 128, 2, 1]));
                let cols = *t.pick(DATA, &[50usize, 2_000, 16_000, 30_000]);
                // distinct heads (a repeated head would share its column): base-26 numerals, shortest first
                let distinct = t.draw(DATA, 4) != 0;
                for i in 0 .. cols {
                    let mut n = if distinct { i } else { i % 40 };
                    loop {
                        d.push(b'a' + (n % 26) as u8);
                        n /= 26;
                        if n == 0 {
                            break;
                        }
                        n -= 1;
                    }
                    d.push(0);
                    if d.len() > 65_000 {
                        break;
                    }
                }
                d.push(0);
                // a few cells - or exactly one row's worth by count, far less than rows x columns
                let cells = match t.draw(DATA, 3) {
                    0 => 255,
                    1 => 256,
                    _ => t.draw(DATA, 5),
                };
                for _ in 0 .. cells {
                    if d.len() > 65_400 {
                        break;
                    }
                    cs(&mut d, "x");
                }
                if t.draw(DATA, 2) == 0 {
                    d.push(0xff); // not UTF-8
                }
                return vec![d];
            }
            d.extend_from_slice(&[0, 1]);
            for f in ["player_", "score_", "ping_", "team_"] {
                cs(&mut d, f);
            }
            d.push(0);
            cs(&mut d, &s(t));
            cs(&mut d, "3");
            cs(&mut d, "40");
            cs(&mut d, "1");
            d.extend_from_slice(&[0, 1]);
            cs(&mut d, "team_t");
            cs(&mut d, "score_t");
            d.push(0);
            cs(&mut d, "red");
            cs(&mut d, "2");
            vec![d]
        }
        Fam::Gs3 | Fam::Jc2m => {
            let mut hs = vec![9, 0, 0, 0, 1];
            cs(&mut hs, "12345678");
            let mut d = vec![0, 0, 0, 0, 1];
            cs(&mut d, "splitnum");
            d.push(0x80);
            d.push(0);
            for (k, v) in [
                ("hostname", s(t)),
                ("mapname", s(t)),
                ("gametype", "dm".into()),
                ("gamever", "1".into()),
                ("version", "1".into()),
                ("description", s(t)),
                ("password", "0".into()),
                ("maxplayers", "8".into()),
                ("numplayers", "1".into()),
            ] {
                cs(&mut d, k);
                cs(&mut d, &v);
            }
            d.push(0);
            if fam == Fam::Jc2m {
                d.extend_from_slice(&[0, 1]);
                cs(&mut d, &s(t));
                cs(&mut d, "7656");
                d.extend_from_slice(&[0, 40]);
            } else {
                d.push(1);
                for (f, v) in [("player_", s(t)), ("score_", "3".into()), ("ping_", "4".into()), ("team_", "1".into()), ("deaths_", "0".into()), ("skill_", "2".into())] {
                    cs(&mut d, f);
                    d.push(0);
                    cs(&mut d, &v);
                    d.push(0);
                }
                d.push(0);
                d.push(2);
                cs(&mut d, "team_t");
                d.push(0);
                cs(&mut d, "red");
                d.push(0);
                cs(&mut d, "score_t");
                d.push(0);
                cs(&mut d, "9");
                d.push(0);
            }
            vec![hs, d]
        }
        Fam::Quake1 | Fam::Quake2 | Fam::Quake3 => {
            let hdr: &[u8] = match fam {
                Fam::Quake1 => b"\xff\xff\xff\xffn",
                Fam::Quake2 => b"\xff\xff\xff\xffprint\n",
                _ => b"\xff\xff\xff\xffstatusResponse\n",
            };
            let mut d = hdr.to_vec();
            d.extend_from_slice(
                format!("\\hostname\\{}\\mapname\\{}\\maxclients\\8\\version\\1.0\\x\\y\n", s(t), s(t)).as_bytes(),
            );
            if fam == Fam::Quake1 {
                d.extend_from_slice(format!("1 5 10 40 \"{}\" \"base\" 4 5\n", s(t)).as_bytes());
            } else {
                d.extend_from_slice(format!("5 40 \"{}\"\n", s(t)).as_bytes());
            }
            vec![d]
        }
        Fam::Unreal2 => {
            let mut info = vec![0x80, 0, 0, 0, 0];
            info.extend_from_slice(&1u32.to_le_bytes());
            u2str(&mut info, "1.2.3.4");
            info.extend_from_slice(&7777u32.to_le_bytes());
            info.extend_from_slice(&7778u32.to_le_bytes());
            u2str(&mut info, &s(t));
            u2str(&mut info, &s(t));
            u2str(&mut info, "DM");
            info.extend_from_slice(&1u32.to_le_bytes());
            info.extend_from_slice(&8u32.to_le_bytes());
            let mut rules = vec![0x80, 0, 0, 0, 1];
            u2str(&mut rules, "Mutator");
            u2str(&mut rules, &s(t));
            u2str(&mut rules, "GamePassword");
            u2str(&mut rules, "True");
            let mut players = vec![0x80, 0, 0, 0, 2];
            players.extend_from_slice(&1u32.to_le_bytes());
            // a UCS-2 name
            let name = "Ab";
            players.push(0x80 | (name.len() as u8 + 1));
            for u in name.encode_utf16() {
                players.extend_from_slice(&u.to_le_bytes());
            }
            players.extend_from_slice(&[0, 0]);
            players.extend_from_slice(&40u32.to_le_bytes());
            players.extend_from_slice(&3i32.to_le_bytes());
            players.extend_from_slice(&0u32.to_le_bytes());
            vec![info, rules, players]
        }
        Fam::McJava => {
            let json = format!(
                "{{\"version\":{{\"name\":\"1.20\",\"protocol\":763}},\"players\":{{\"max\":20,\"online\":1,\"sample\":[{{\"name\":\"{}\",\"id\":\"u\"}}]}},\"description\":\"{}\"}}",
                s(t).replace('"', ""),
                s(t).replace('"', "")
            );
            let mut body = vec![0];
            body.extend(varint(json.len() as u32));
            body.extend_from_slice(json.as_bytes());
            let mut d = varint(body.len() as u32);
            d.extend(body);
            vec![d]
        }
        Fam::McBedrock => {
            let status = format!("MCPE;{};500;1.19;1;20;123;{};Survival;1;19132;19133;", s(t).replace(';', ""), s(t).replace(';', ""));
            let mut d = vec![0x1c, 0x11, 0x22, 0x33, 0x44, 0x55, 0x66, 0x77, 0x88];
            d.extend_from_slice(&[1; 8]);
            d.extend_from_slice(&[0x00, 0xff, 0xff, 0x00, 0xfe, 0xfe, 0xfe, 0xfe, 0xfd, 0xfd, 0xfd, 0xfd, 0x12, 0x34, 0x56, 0x78]);
            d.extend_from_slice(&(status.len() as u16).to_be_bytes());
            d.extend_from_slice(status.as_bytes());
            vec![d]
        }
        Fam::McLegacy16 | Fam::McLegacy14 | Fam::McLegacyB18 => {
            let text = if fam == Fam::McLegacy16 {
                format!("§1\0{}\0{}\0{}\0{}\0{}", 74, "1.6.2", s(t), 1, 20)
            } else {
                format!("{}§1§20", s(t).replace('§', ""))
            };
            let units = utf16be(&text);
            let mut d = vec![0xff];
            d.extend_from_slice(&((units.len() / 2) as u16).to_be_bytes());
            d.extend(units);
            vec![d]
        }
        Fam::Mindustry => {
            let mut d = Vec::new();
            let ls = |d: &mut Vec<u8>, s: String| {
                d.push(s.len() as u8);
                d.extend_from_slice(s.as_bytes());
            };
            ls(&mut d, s(t));
            ls(&mut d, s(t));
            d.extend_from_slice(&3i32.to_be_bytes());
            d.extend_from_slice(&10i32.to_be_bytes());
            d.extend_from_slice(&146i32.to_be_bytes());
            ls(&mut d, "official".into());
            d.push(1);
            d.extend_from_slice(&16i32.to_be_bytes());
            ls(&mut d, s(t));
            ls(&mut d, "mode".into());
            vec![d]
        }
        Fam::Savage2 => {
            let mut d = vec![0; 12];
            cs(&mut d, &s(t));
            d.extend_from_slice(&[3, 16]);
            for _ in 0 .. 4 {
                cs(&mut d, &s(t));
            }
            d.push(1);
            cs(&mut d, "mode");
            cs(&mut d, "2.1");
            d.push(5);
            vec![d]
        }
        Fam::Eco => vec![eco_body(t)],
        Fam::EcoHttp => http_templates(t),
        Fam::Master => {
            let mut a = vec![0xff, 0xff, 0xff, 0xff, 0x66, 0x0a];
            let n = 1 + t.draw(DATA, 4);
            for i in 0 .. n {
                a.extend_from_slice(&[10, 1, 1, i as u8 + 1, 0x69, 0x87]);
            }
            let mut b = vec![0xff, 0xff, 0xff, 0xff, 0x66, 0x0a, 10, 2, 2, 2, 0x69, 0x88];
            b.extend_from_slice(&[0, 0, 0, 0, 0, 0]);
            vec![a, b]
        }
    }
}

const BOUNDARY_U8: &[u8] = &[0, 1, 0x7f, 0x80, 0xfe, 0xff, 0x1b, 0x0a, b'\\', b'_'];
const BIG_NUMBERS: &[&str] = &["4294967295", "99999999", "-1", "2147483648", "18446744073709551615", "1e9", "", "65536", "256"];

/// Damage one reply in place.
/// gzip of the start of an Eco front page whose first string runs on for `n` bytes (a decompression
/// bomb: about n / 1000 bytes on the wire), built once per process.
pub fn gzip_bomb(n: usize) -> Vec<u8> {
    use std::io::Write;
    static CACHE: std::sync::OnceLock<std::sync::Mutex<std::collections::BTreeMap<usize, Vec<u8>>>> = std::sync::OnceLock::new();
    let m = CACHE.get_or_init(Default::default);
    let mut g = m.lock().unwrap();
    g.entry(n)
        .or_insert_with(|| {
            let mut e = flate2::write::GzEncoder::new(Vec::new(), flate2::Compression::best());
            e.write_all(b"{\"Info\":{\"Description\":\"").unwrap();
            let block = vec![b'a'; 1 << 20];
            let mut left = n;
            while left > 0 {
                let k = left.min(block.len());
                e.write_all(&block[.. k]).unwrap();
                left -= k;
            }
            e.finish().unwrap()
        })
        .clone()
}

/// An Eco front page: minimal, or with counts that have nothing to do with the lists next to them.
fn eco_body(t: &mut Tape) -> Vec<u8> {
    let d = small_str(t).replace('"', "");
    match t.draw(DATA, 4) {
        0 | 1 => {
            // a complete, valid front page (every field the client requires) whose counts have nothing to
            // do with the lists next to them
            let mut st = crate::models::misc::EcoState::generate(t);
            if t.draw(DATA, 2) == 0 {
                let n = *t.pick(DATA, &[2_000_000u64, 4_294_967_295, 16_777_216, 99_999_999]);
                for k in ["OnlinePlayers", "TotalPlayers", "ActiveAndOnlinePlayers", "PeakActivePlayers", "MaxActivePlayers", "Animals", "Plants", "Laws"] {
                    st.info.insert(k.to_string(), serde_json::json!(n));
                }
                st.info.insert("OnlinePlayersNames".to_string(), serde_json::json!(["a", "b"]));
            }
            st.body()
        }
        _ => format!("{{\"Info\":{{\"Description\":\"{d}\",\"OnlinePlayers\":1}}}}").into_bytes(),
    }
}

/// Valid HTTP/1.1 responses carrying an Eco front page (several framings), and the classic abuses
/// of the framing headers.
fn http_templates(t: &mut Tape) -> Vec<Vec<u8>> {
    let body = eco_body(t);
    let head = |extra: &str| format!("HTTP/1.1 200 OK\r\nContent-Type: application/json; charset=utf-8\r\nServer: Kestrel\r\n{extra}\r\n").into_bytes();
    match t.draw(DATA, 9) {
        0 | 1 => {
            let mut d = head(&format!("Content-Length: {}\r\n", body.len()));
            d.extend_from_slice(&body);
            vec![d]
        }
        2 => {
            // head and body in separate writes
            vec![head(&format!("Content-Length: {}\r\n", body.len())), body]
        }
        3 => {
            let mut d = head("Transfer-Encoding: chunked\r\n");
            let cut = t.draw(DATA, body.len() as u64 + 1) as usize;
            for part in [&body[.. cut], &body[cut ..]] {
                if !part.is_empty() {
                    d.extend_from_slice(format!("{:x}\r\n", part.len()).as_bytes());
                    d.extend_from_slice(part);
                    d.extend_from_slice(b"\r\n");
                }
            }
            d.extend_from_slice(b"0\r\n\r\n");
            vec![d]
        }
        4 => {
            let mut d = head("Connection: close\r\n");
            d.extend_from_slice(&body);
            vec![d]
        }
        5 => {
            // announces far more than it sends
            let n = *t.pick(DATA, &["1073741824", "4294967296", "18446744073709551615", "99999999999999999999", "2147483647", "67108865"]);
            let mut d = head(&format!("Content-Length: {n}\r\n"));
            d.extend_from_slice(&body);
            vec![d]
        }
        6 => {
            // a chunk that announces far more than it sends
            let n = *t.pick(DATA, &["40000000", "ffffffff", "ffffffffffffffff", "7fffffffffffffff", "4000001"]);
            let mut d = head("Transfer-Encoding: chunked\r\n");
            d.extend_from_slice(format!("{n}\r\n").as_bytes());
            d.extend_from_slice(&body);
            vec![d]
        }
        7 => {
            // gzip-encoded body that inflates to far more than was sent
            let mib = *t.pick(DATA, &[1usize, 20, 70, 200]);
            let gz = gzip_bomb(mib << 20);
            let mut items = vec![head(&format!("Content-Encoding: gzip\r\nContent-Length: {}\r\n", gz.len()))];
            for c in gz.chunks(60_000) {
                items.push(c.to_vec());
            }
            items
        }
        _ => {
            // other status lines
            let st = *t.pick(DATA, &["HTTP/1.1 404 Not Found", "HTTP/1.1 500 Internal Server Error", "HTTP/1.1 301 Moved Permanently\r\nLocation: http://192.0.2.10:3001/frontpage", "HTTP/1.0 200 OK", "HTTP/1.1 100 Continue\r\n\r\nHTTP/1.1 200 OK", "HTTP/1.1 204 No Content"]);
            let mut d = format!("{st}\r\nContent-Length: {}\r\n\r\n", body.len()).into_bytes();
            d.extend_from_slice(&body);
            vec![d]
        }
    }
}

pub fn mutate(t: &mut Tape, d: &mut Vec<u8>, extreme: bool) {
    // text-level damage that single-byte mutations practically never produce
    if t.draw(DATA, 12) == 0 {
        match t.draw(DATA, 4) {
            0 if !d.is_empty() => {
                // the reply starts with a multi-byte character instead of its first byte
                let c = *t.pick(DATA, &["é", "€", "🎮", "\u{feff}"]);
                d.splice(0 .. 1, c.bytes());
            }
            1 if d.len() > 4 => {
                // a multi-byte character at a random place (cut points, fixed-width slices)
                let at = t.draw(DATA, d.len() as u64) as usize;
                let c = *t.pick(DATA, &["é", "€", "🎮"]);
                d.splice(at .. at, c.bytes());
            }
            2 => {
                // every decimal number becomes an extreme one (two fields that are only dangerous together)
                let big = *t.pick(DATA, BIG_NUMBERS);
                let mut out = Vec::with_capacity(d.len());
                let mut i = 0;
                while i < d.len() {
                    if d[i].is_ascii_digit() {
                        while i < d.len() && d[i].is_ascii_digit() {
                            i += 1;
                        }
                        out.extend_from_slice(big.as_bytes());
                    } else {
                        out.push(d[i]);
                        i += 1;
                    }
                }
                out.truncate(65_507);
                *d = out;
            }
            _ => {
                // drop a prefix
                let n = t.draw(DATA, d.len().min(24) as u64 + 1) as usize;
                d.drain(.. n);
            }
        }
        return;
    }
    let choices = if extreme { 12 } else { 10 };
    match t.draw(DATA, choices) {
        0 => {
            let at = t.draw(DATA, d.len() as u64 + 1) as usize;
            d.truncate(at);
        }
        1 if !d.is_empty() => {
            let at = t.draw(DATA, d.len() as u64) as usize;
            d[at] = *t.pick(DATA, BOUNDARY_U8);
        }
        2 | 10 if d.len() >= 2 => {
            // overwrite a 2- or 4-byte field with a boundary value, either byte order
            let wide = t.draw(DATA, 2) == 1 && d.len() >= 4;
            let w = if wide { 4 } else { 2 };
            let at = t.draw(DATA, (d.len() - w + 1) as u64) as usize;
            let v: u32 = *t.pick(DATA, &[0u32, 1, 0x7fff, 0x8000, 0xffff, 0x7fff_ffff, 0x8000_0000, 0xffff_ffff, 0x0100_0000]);
            let le = t.draw(DATA, 2) == 0;
            for i in 0 .. w {
                let shift = if le { 8 * i } else { 8 * (w - 1 - i) };
                d[at + i] = (v >> shift) as u8;
            }
        }
        3 => {
            // delete a terminator
            let zeros: Vec<usize> = d.iter().enumerate().filter(|(_, b)| **b == 0 || **b == b'\n').map(|(i, _)| i).collect();
            if !zeros.is_empty() {
                let at = zeros[t.draw(DATA, zeros.len() as u64) as usize];
                d.remove(at);
            }
        }
        4 if !d.is_empty() => {
            let at = t.draw(DATA, d.len() as u64) as usize;
            d[at] ^= 1 << t.draw(DATA, 8);
        }
        5 => {
            let n = match t.draw(DATA, 8) {
                0 => 65_507usize.saturating_sub(d.len()),
                1 => 7000,
                _ => t.draw(DATA, 64) as usize,
            };
            for _ in 0 .. n {
                d.push(t.draw(DATA, 256) as u8);
            }
        }
        6 | 11 => {
            // replace a decimal number in the text with an extreme one
            let mut spans = Vec::new();
            let mut i = 0;
            while i < d.len() {
                if d[i].is_ascii_digit() {
                    let s = i;
                    while i < d.len() && d[i].is_ascii_digit() {
                        i += 1;
                    }
                    spans.push((s, i));
                } else {
                    i += 1;
                }
            }
            if !spans.is_empty() {
                let (s, e) = spans[t.draw(DATA, spans.len() as u64) as usize];
                let big = *t.pick(DATA, BIG_NUMBERS);
                d.splice(s .. e, big.bytes());
            }
        }
        7 => {
            if t.draw(DATA, 2) == 0 || d.is_empty() {
                d.clear();
            } else {
                // overwrite one byte by an extreme VarInt (length fields of VarInt-framed protocols)
                let at = t.draw(DATA, d.len().min(8) as u64) as usize;
                let v: &[u8] = *t.pick(DATA, &[&[0xff, 0xff, 0xff, 0xff, 0x0f][..], &[0xff, 0xff, 0xff, 0xff, 0x07][..], &[0x80, 0x80, 0x80, 0x80, 0x08][..]]);
                d.splice(at .. at + 1, v.iter().copied());
            }
        }
        8 if !d.is_empty() => {
            // insert a byte
            let at = t.draw(DATA, d.len() as u64 + 1) as usize;
            d.insert(at, *t.pick(DATA, BOUNDARY_U8));
        }
        _ => {
            // cut a slice out of the middle
            if d.len() > 2 {
                let a = t.draw(DATA, d.len() as u64) as usize;
                let b = a + t.draw(DATA, (d.len() - a) as u64) as usize;
                d.drain(a .. b);
            }
        }
    }
}

/// Protocol reply headers for generation mode (b).
pub fn header(fam: Fam, t: &mut Tape) -> Vec<u8> {
    match fam {
        Fam::Valve | Fam::ValveGoldSrc | Fam::ValveShip | Fam::Ffow => {
            let k = *t.pick(DATA, &[0x49u8, 0x6d, 0x44, 0x45, 0x41, 0x46]);
            if t.draw(DATA, 3) == 0 {
                vec![0xfe, 0xff, 0xff, 0xff]
            } else {
                vec![0xff, 0xff, 0xff, 0xff, k]
            }
        }
        Fam::Gs1 => b"\\".to_vec(),
        Fam::Gs2 => vec![0, 0, 0, 0, 1],
        Fam::Gs3 | Fam::Jc2m => {
            if t.draw(DATA, 2) == 0 {
                vec![9, 0, 0, 0, 1]
            } else {
                let mut d = vec![0, 0, 0, 0, 1];
                d.extend_from_slice(b"splitnum\0");
                d
            }
        }
        Fam::Quake1 => b"\xff\xff\xff\xffn".to_vec(),
        Fam::Quake2 => b"\xff\xff\xff\xffprint\n".to_vec(),
        Fam::Quake3 => b"\xff\xff\xff\xffstatusResponse\n".to_vec(),
        Fam::Unreal2 => vec![0x80, 0, 0, 0, t.draw(DATA, 3) as u8],
        Fam::McJava => {
            // packet length, packet id 0, then (often) an extreme string-length VarInt
            let mut d = vec![t.draw(DATA, 128) as u8, 0];
            match t.draw(DATA, 6) {
                0 => d.extend_from_slice(&[0xff, 0xff, 0xff, 0xff, 0x0f]),
                1 => d.extend_from_slice(&[0xff, 0xff, 0xff, 0xff, 0x07]),
                2 => d.extend_from_slice(&[0x80, 0x80, 0x80, 0x80, 0x08]),
                3 => d.extend_from_slice(&[0xff, 0xff, 0x7f]),
                _ => {}
            }
            d
        }
        Fam::McBedrock => {
            let mut d = vec![0x1c, 0x11, 0x22, 0x33, 0x44, 0x55, 0x66, 0x77, 0x88];
            d.extend_from_slice(&[1; 8]);
            d.extend_from_slice(&[0x00, 0xff, 0xff, 0x00, 0xfe, 0xfe, 0xfe, 0xfe, 0xfd, 0xfd, 0xfd, 0xfd, 0x12, 0x34, 0x56, 0x78]);
            d
        }
        Fam::McLegacy16 | Fam::McLegacy14 | Fam::McLegacyB18 => vec![0xff],
        Fam::Mindustry | Fam::Savage2 | Fam::Eco => Vec::new(),
        Fam::EcoHttp => b"HTTP/1.1 200 OK\r\n".to_vec(),
        Fam::Master => vec![0xff, 0xff, 0xff, 0xff, 0x66, 0x0a],
    }
}

/// Generate a reply script of 0..=12 items.
pub fn script(t: &mut Tape, fam: Fam, extreme: bool) -> Vec<Vec<u8>> {
    let mode = t.draw(DATA, 8);
    let mut items: Vec<Vec<u8>> = match mode {
        0 ..= 4 => {
            let mut items = templates(t, fam);
            // families with a multi-packet framing: one script in three gets contradictory index fields
            if matches!(fam, Fam::Valve | Fam::ValveGoldSrc | Fam::ValveShip | Fam::Ffow | Fam::Gs1 | Fam::Gs3 | Fam::Jc2m) && t.draw(DATA, 3) == 0 {
                index_games(t, fam, &mut items);
            }
            if fam == Fam::EcoHttp && t.draw(DATA, 2) == 0 {
                if let Some(first) = items.first_mut() {
                    http_games(t, first);
                }
            }
            // damage one to three replies
            let dmg = if mode == 0 { 0 } else { 1 + t.draw(DATA, 3) };
            for _ in 0 .. dmg {
                if items.is_empty() {
                    break;
                }
                let i = t.draw(DATA, items.len() as u64) as usize;
                let rounds = 1 + t.draw(DATA, 2);
                for _ in 0 .. rounds {
                    mutate(t, &mut items[i], extreme);
                }
            }
            items
        }
        5 | 6 => {
            let n = t.draw(DATA, 5);
            (0 .. n)
                .map(|_| {
                    let mut d = header(fam, t);
                    let len = match t.draw(DATA, 6) {
                        0 => 0,
                        1 => t.draw(DATA, 4) as usize,
                        5 => t.draw(DATA, 3000) as usize,
                        _ => t.draw(DATA, 80) as usize,
                    };
                    for _ in 0 .. len {
                        // text-ish or binary
                        d.push(if t.draw(DATA, 3) == 0 {
                            *t.pick(DATA, b"\\_0123456789\0\n ;\"\xa7")
                        } else {
                            t.draw(DATA, 256) as u8
                        });
                    }
                    d
                })
                .collect()
        }
        _ => {
            let n = t.draw(DATA, 4);
            (0 .. n)
                .map(|_| {
                    let len = t.draw(DATA, 40) as usize;
                    (0 .. len).map(|_| t.draw(DATA, 256) as u8).collect()
                })
                .collect()
        }
    };
    damage_script(t, &mut items);
    items.truncate(12);
    for d in &mut items {
        d.truncate(65_507);
    }
    items
}

const INDEX_VALUES: &[u8] = &[0, 1, 2, 3, 4, 5, 8, 0x0f, 0x10, 0x12, 0x21, 0x7f, 0x80, 0x81, 0x82, 0x83, 0x85, 0xfe, 0xff];

/// "Inconsistent length, count or index fields": give the multi-packet framing of a script (split
/// packets, numbered parts, last-packet flags) freshly drawn small / flagged values, and add a few
/// more packets of the same framing, so that announced counts, packet numbers and last-packet
/// flags contradict each other and the number of packets that really arrive.
pub fn index_games(t: &mut Tape, fam: Fam, items: &mut Vec<Vec<u8>>) {
    let idx = |t: &mut Tape| *t.pick(DATA, INDEX_VALUES);
    match fam {
        Fam::Valve | Fam::ValveGoldSrc | Fam::ValveShip | Fam::Ffow => {
            // more fragments of the same answer
            if let Some(last) = items.iter().rposition(|d| d.starts_with(&[0xfe, 0xff, 0xff, 0xff])) {
                for _ in 0 .. t.draw(DATA, 4) {
                    let c = items[last].clone();
                    items.insert(last + 1, c);
                }
            }
            for d in items.iter_mut() {
                if d.starts_with(&[0xfe, 0xff, 0xff, 0xff]) && d.len() > 9 {
                    if fam == Fam::ValveGoldSrc {
                        d[8] = idx(t);
                    } else {
                        d[8] = idx(t);
                        d[9] = idx(t);
                    }
                    if t.draw(DATA, 4) == 0 {
                        d[7] ^= 0x80; // compressed flag of the answer id
                    }
                    if t.draw(DATA, 4) == 0 {
                        d[4] = d[4].wrapping_add(1); // another answer id
                    }
                }
            }
        }
        Fam::Gs3 | Fam::Jc2m => {
            let is_data = |d: &Vec<u8>| d.len() > 16 && d[0] == 0 && &d[5 .. 14] == b"splitnum\0";
            if let Some(last) = items.iter().rposition(is_data) {
                for _ in 0 .. t.draw(DATA, 4) {
                    let c = items[last].clone();
                    items.insert(last + 1, c);
                }
            }
            for d in items.iter_mut() {
                if is_data(d) {
                    d[14] = idx(t);
                    if t.draw(DATA, 2) == 0 {
                        d[15] = idx(t);
                    }
                    // the start offsets of the player / team field sections ("player_\0" <offset> items...)
                    if t.draw(DATA, 2) == 0 {
                        let at: Vec<usize> = (16 .. d.len().saturating_sub(2)).filter(|&i| d[i] == b'_' && d[i + 1] == 0).map(|i| i + 2).collect();
                        let at_t: Vec<usize> = (16 .. d.len().saturating_sub(3)).filter(|&i| d[i] == b'_' && d[i + 1] == b't' && d[i + 2] == 0).map(|i| i + 3).collect();
                        for i in at.into_iter().chain(at_t) {
                            if i < d.len() && t.draw(DATA, 2) == 0 {
                                d[i] = idx(t);
                            }
                        }
                    }
                }
            }
        }
        Fam::Gs1 => {
            // part numbers and the final marker
            let nums: &[&str] = &["0", "1", "2", "3", "5", "9", "255", "256", "65536", "4294967295", "4294967296", "40000000", "-1", ""];
            if let Some(last) = items.iter().rposition(|d| d.windows(9).any(|w| w == b"\\queryid\\")) {
                for _ in 0 .. t.draw(DATA, 3) {
                    let c = items[last].clone();
                    items.insert(last + 1, c);
                }
            }
            for d in items.iter_mut() {
                if !d.windows(9).any(|w| w == b"\\queryid\\") {
                    continue;
                }
                let text = String::from_utf8_lossy(d).to_string();
                let mut out = String::new();
                let mut rest = text.as_str();
                while let Some(p) = rest.find("\\queryid\\") {
                    let (head, tail) = rest.split_at(p + 9);
                    out.push_str(head);
                    let end = tail.find('\\').unwrap_or(tail.len());
                    let id = *t.pick(DATA, nums);
                    let part = *t.pick(DATA, nums);
                    out.push_str(&format!("{id}.{part}"));
                    rest = &tail[end ..];
                }
                out.push_str(rest);
                match t.draw(DATA, 3) {
                    0 => out = out.replace("\\final\\", "\\"),
                    1 if !out.contains("\\final\\") => out.push_str("\\final\\"),
                    _ => {}
                }
                *d = out.into_bytes();
            }
        }
        _ => {}
    }
}

/// Damage to the head of an HTTP response that a byte-level mutation rarely produces: header lines
/// without colon, repeated or contradictory framing headers, odd numbers, folded lines, a great many or
/// very long header lines, other line ends, interim responses.
pub fn http_games(t: &mut Tape, d: &mut Vec<u8>) {
    let Some(end) = d.windows(4).position(|w| w == b"\r\n\r\n") else { return };
    let head = String::from_utf8_lossy(&d[.. end]).to_string();
    let body = d[end + 4 ..].to_vec();
    let mut lines: Vec<String> = head.split("\r\n").map(str::to_string).collect();
    let pick_header = |t: &mut Tape, n: usize| 1 + t.draw(DATA, (n.max(2) - 1) as u64) as usize;
    let mut eol = "\r\n".to_string();
    for _ in 0 .. 1 + t.draw(DATA, 2) {
        let n = lines.len();
        match t.draw(DATA, 14) {
            0 if n > 1 => {
                // a header line without colon (name only, or name and value run together)
                let i = pick_header(t, n);
                lines[i] = if t.draw(DATA, 2) == 0 { lines[i].split(':').next().unwrap_or("").to_string() } else { lines[i].replace(": ", " ") };
            }
            1 if n > 1 => {
                let i = pick_header(t, n);
                lines[i] = lines[i].replace(": ", ":");
            }
            2 => lines.push(format!("Content-Length: {}", *t.pick(DATA, &["0", "1", "-1", "+5", "5 5", "0x10", "18446744073709551616", "1e3", ""]))),
            3 => lines.push(format!("Transfer-Encoding: {}", *t.pick(DATA, &["chunked", "identity", "gzip, chunked", "chunked, chunked", "CHUNKED", ""]))),
            4 => lines.push(format!("Content-Encoding: {}", *t.pick(DATA, &["gzip", "br", "deflate", "gzip, gzip", "identity", "GZIP"]))),
            5 if n > 1 => {
                // obsolete line folding
                let i = pick_header(t, n);
                lines[i] = lines[i].replace(": ", ":\r\n ");
            }
            6 => {
                let many = *t.pick(DATA, &[50usize, 99, 100, 101, 1000]);
                for k in 0 .. many {
                    lines.push(format!("X-H{k}: v"));
                }
            }
            7 => {
                let long = *t.pick(DATA, &[1000usize, 8191, 8192, 16_384, 60_000]);
                lines.push(format!("X-Long: {}", "a".repeat(long)));
            }
            8 => eol = (*t.pick(DATA, &["\n", "\r", "\n\r", "\r\r\n"])).to_string(),
            9 => {
                lines[0] = (*t.pick(DATA, &[
                    "HTTP/1.1 200",
                    "HTTP/1.1  200 OK",
                    "HTTP/2 200 OK",
                    "HTTP/1.1 2000 OK",
                    "HTTP/1.1 abc OK",
                    "HTTP/1.1 -200 OK",
                    "HTTP/1.1 999 ?",
                    "ICY 200 OK",
                    "",
                    "HTTP/1.1 200 OK\r\n",
                ]))
                .to_string();
            }
            10 => {
                // interim responses first
                let k = 1 + t.draw(DATA, 3);
                for _ in 0 .. k {
                    lines.insert(0, String::new());
                    lines.insert(0, (*t.pick(DATA, &["HTTP/1.1 100 Continue", "HTTP/1.1 102 Processing", "HTTP/1.1 103 Early Hints"])).to_string());
                }
            }
            11 => lines.push(format!("Location: {}", *t.pick(DATA, &["/frontpage", "http://192.0.2.10:3001/frontpage", "http://[::1]:3001/", "//", "http://", "\u{0}", "ftp://x/", "http://192.0.2.10:99999/"]))),
            12 if n > 1 => {
                let i = pick_header(t, n);
                let l = lines[i].clone();
                lines.push(l);
            }
            _ => lines.push(format!("{}: {}", *t.pick(DATA, &["Connection", "Keep-Alive", "Trailer", "Upgrade", "Set-Cookie"]), *t.pick(DATA, &["close", "keep-alive", "timeout=0", "chunked", "h2c", "a=b; Max-Age=-1"]))),
        }
    }
    let mut out = lines.join(&eol).into_bytes();
    out.extend_from_slice(eol.as_bytes());
    out.extend_from_slice(eol.as_bytes());
    out.extend_from_slice(&body);
    out.truncate(65_507);
    *d = out;
}

/// Script-level damage: drop / duplicate / swap replies, or repeat the whole script.
pub fn damage_script(t: &mut Tape, items: &mut Vec<Vec<u8>>) {
    if !items.is_empty() {
        match t.draw(DATA, 8) {
            0 => {
                let i = t.draw(DATA, items.len() as u64) as usize;
                items.remove(i);
            }
            1 => {
                let i = t.draw(DATA, items.len() as u64) as usize;
                let d = items[i].clone();
                items.insert(i, d);
            }
            2 if items.len() >= 2 => {
                let i = t.draw(DATA, items.len() as u64 - 1) as usize;
                items.swap(i, i + 1);
            }
            3 => {
                // repeat the whole script (more replies than requests)
                let c = items.clone();
                items.extend(c);
            }
            _ => {}
        }
    }
}

/// Damage a recorded valid reply sequence (the replies a reference-model server really sent in a
/// valid conversation of this very entry point).
pub fn damage_recorded(t: &mut Tape, mut items: Vec<Vec<u8>>, extreme: bool) -> Vec<Vec<u8>> {
    if t.draw(DATA, 3) == 0 {
        // whichever multi-packet framing the recorded replies use (each call only touches its own)
        index_games(t, Fam::Valve, &mut items);
        index_games(t, Fam::Gs3, &mut items);
        index_games(t, Fam::Gs1, &mut items);
    }
    let dmg = t.draw(DATA, 4); // 0: replay unchanged
    for _ in 0 .. dmg {
        if items.is_empty() {
            break;
        }
        let i = t.draw(DATA, items.len() as u64) as usize;
        let rounds = 1 + t.draw(DATA, 2);
        for _ in 0 .. rounds {
            mutate(t, &mut items[i], extreme);
        }
    }
    damage_script(t, &mut items);
    items.truncate(24);
    for d in &mut items {
        d.truncate(65_507);
    }
    items
}

/// How the TCP side ends after the script is exhausted.
#[derive(Clone, Copy, Debug, PartialEq, Eq)]
pub enum TcpEnd {
    Fin,
    Stall,
    Reset,
}

pub struct HostileServer {
    pub script: Vec<Vec<u8>>,
    /// how many scripted replies each incoming request releases
    pub bursts: Vec<u8>,
    pub next: usize,
    pub requests: usize,
    pub tcp_end: TcpEnd,
    pub exhausted_at_op: Option<u64>,
}

impl HostileServer {
    pub fn new(t: &mut Tape, script: Vec<Vec<u8>>) -> Self {
        let bursts = (0 .. 16)
            .map(|_| {
                match t.draw(DATA, 8) {
                    0 => 0,
                    1 => 2,
                    2 => 3,
                    _ => 1,
                }
            })
            .collect();
        let tcp_end = match t.draw(DATA, 4) {
            0 => TcpEnd::Stall,
            1 => TcpEnd::Reset,
            _ => TcpEnd::Fin,
        };
        Self { script, bursts, next: 0, requests: 0, tcp_end, exhausted_at_op: None }
    }

    fn release(&mut self) -> Vec<Vec<u8>> {
        let n = self.bursts.get(self.requests).copied().unwrap_or(1) as usize;
        self.requests += 1;
        let mut out = Vec::new();
        for _ in 0 .. n {
            if self.next < self.script.len() {
                out.push(self.script[self.next].clone());
                self.next += 1;
            }
        }
        out
    }
}

impl Server for HostileServer {
    fn on_udp(&mut self, cx: &mut Cx, from: SocketAddr, _data: &[u8]) {
        for d in self.release() {
            cx.udp_send(from, d);
        }
        if self.next >= self.script.len() && self.exhausted_at_op.is_none() {
            self.exhausted_at_op = Some(cx.w.stats.client_ops);
        }
    }

    fn on_tcp_data(&mut self, cx: &mut Cx, conn: usize, _data: &[u8]) {
        for d in self.release() {
            cx.tcp_send(conn, d);
        }
        if self.next >= self.script.len() {
            if self.exhausted_at_op.is_none() {
                self.exhausted_at_op = Some(cx.w.stats.client_ops);
            }
            match self.tcp_end {
                TcpEnd::Fin => cx.tcp_fin(conn),
                TcpEnd::Reset => cx.tcp_rst(conn),
                TcpEnd::Stall => {}
            }
        }
    }

    fn as_any(&mut self) -> &mut dyn std::any::Any { self }
}

/// Hostile HTTP endpoint for Eco: a scripted body or a transport error.
pub struct HostileHttp {
    pub script: Vec<Vec<u8>>,
    pub next: usize,
}

impl HttpHandler for HostileHttp {
    fn serve(&mut self, _w: &mut World, _m: &str, _u: &str, _h: &[(String, String)]) -> std::io::Result<Vec<u8>> {
        if self.next < self.script.len() {
            self.next += 1;
            Ok(self.script[self.next - 1].clone())
        } else {
            Err(std::io::Error::new(std::io::ErrorKind::TimedOut, "no reply"))
        }
    }
}

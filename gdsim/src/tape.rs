//! The decision tape. Every choice in a simulated run is a bounded integer
//! pulled from a lane of the tape. In generation mode a lane is filled lazily
//! from its own PRNG stream and recorded; in replay mode it is read back and
//! past its end every draw is 0. 0 always encodes the simplest choice.

use crate::rng::{mix, Rng};
use serde::{Deserialize, Serialize};

pub const CFG: usize = 0; // scenario / settings / fault-kind enabling
pub const DATA: usize = 1; // server state and reply content
pub const NET: usize = 2; // per-datagram network decisions
pub const OS: usize = 3; // cooperative fault points in the OS model
pub const LANES: usize = 4;

#[derive(Clone, Debug, Default, Serialize, Deserialize, PartialEq, Eq)]
pub struct TapeData {
    pub lanes: Vec<Vec<u64>>,
}

pub struct Tape {
    gen: Option<Vec<Rng>>,
    pub data: TapeData,
    pos: [usize; LANES],
    pub draws: u64,
}

impl Tape {
    pub fn generate(seed: u64) -> Self {
        let gen = (0 .. LANES)
            .map(|l| Rng::new(mix(&[seed, l as u64, 0x7461_7065])))
            .collect();
        Self {
            gen: Some(gen),
            data: TapeData {
                lanes: vec![Vec::new(); LANES],
            },
            pos: [0; LANES],
            draws: 0,
        }
    }

    pub fn replay(data: TapeData) -> Self {
        let mut data = data;
        while data.lanes.len() < LANES {
            data.lanes.push(Vec::new());
        }
        Self {
            gen: None,
            data,
            pos: [0; LANES],
            draws: 0,
        }
    }

    /// A value in `0 .. bound` (bound 0 or 1 yields 0 and still consumes a
    /// slot, so that the tape layout does not depend on bounds).
    pub fn draw(&mut self, lane: usize, bound: u64) -> u64 {
        self.draws += 1;
        let p = self.pos[lane];
        self.pos[lane] += 1;
        let b = bound.max(1);
        match &mut self.gen {
            Some(g) => {
                let v = g[lane].next() % b;
                self.data.lanes[lane].push(v);
                v
            }
            None => self.data.lanes[lane].get(p).copied().unwrap_or(0) % b,
        }
    }

    /// True with probability `ppm` / 1e6; a tape value of 0 is always false.
    pub fn chance(&mut self, lane: usize, ppm: u64) -> bool {
        let v = self.draw(lane, 1_000_000);
        ppm > 0 && v >= 1_000_000 - ppm.min(1_000_000)
    }

    pub fn range(&mut self, lane: usize, lo: u64, hi_incl: u64) -> u64 { lo + self.draw(lane, hi_incl - lo + 1) }

    pub fn pick<'a, T>(&mut self, lane: usize, items: &'a [T]) -> &'a T {
        let i = self.draw(lane, items.len() as u64) as usize;
        &items[i]
    }

    pub fn full_u64(&mut self, lane: usize) -> u64 { self.draw(lane, u64::MAX) }

    pub fn total_len(&self) -> usize { self.data.lanes.iter().map(Vec::len).sum() }
}

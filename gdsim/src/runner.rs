//! Multi-process runner: chunks of cases are executed by worker processes
//! (needed because allocation failure, stack overflow and CPU loops cannot be
//! caught in-process), results are merged, known findings are filtered,
//! violations are minimised and written as replay files, evidence is written.

use crate::minimise;
use crate::prop::{CaseOut, Prop, Tier, Violation};
use crate::rng::{hash_str, mix, Fnv};
use crate::tape::{Tape, TapeData};
use serde::{Deserialize, Serialize};
use serde_json::{json, Value};
use std::collections::{BTreeMap, BTreeSet, HashSet};
use std::fs;
use std::io::Write;
use std::os::unix::fs::FileExt;
use std::os::unix::process::ExitStatusExt;
use std::path::{Path, PathBuf};
use std::process::{Child, Command, Stdio};
use std::time::{Duration, Instant};

/// The verification directory: the directory the check script runs from (the location of
/// the `gdsim` crate's parent), so that a snapshot copy writes into itself.
pub fn verif_dir() -> PathBuf {
    if let Ok(d) = std::env::var("GDSIM_VERIF_DIR") {
        return PathBuf::from(d);
    }
    // <dir>/gdsim/target/release/gdsim -> <dir>
    if let Ok(exe) = std::env::current_exe() {
        if let Some(d) = exe.ancestors().nth(4) {
            if d.join("known_findings.json").exists() {
                return d.to_path_buf();
            }
        }
    }
    PathBuf::from("/verif")
}
const CPU_HANG_SECS: f64 = 20.0;
const MAX_MINIMISED_PER_CHUNK: usize = 4;
/// progress-file flag: the worker is minimising / re-rendering a violation of this case
const MINIMISING: u64 = 1 << 63;

pub fn case_seed(seed: u64, prop: &str, idx: u64) -> u64 { mix(&[seed, hash_str(prop), idx]) }

#[derive(Serialize, Deserialize, Clone, Debug)]
pub struct ViolationRecord {
    pub property: String,
    pub seed: u64,
    pub case: u64,
    pub signature: String,
    pub what: String,
    pub expected: String,
    pub observed: String,
    pub tape: TapeData,
    pub original_tape_len: usize,
    pub minimised: bool,
    pub schedule: Vec<String>,
    #[serde(default)]
    pub scenario: Value,
}

#[derive(Serialize, Deserialize, Default, Debug)]
pub struct ChunkStats {
    pub evaluations: u64,
    pub runs: u64,
    pub sim_ns: u64,
    pub nontrivial: u64,
    pub faults: BTreeMap<String, u64>,
    pub probes: BTreeMap<String, u64>,
    pub skipped: BTreeMap<String, u64>,
    pub interleavings: Vec<u64>,
    pub distinct: Vec<u64>,
    pub samples: Vec<Value>,
    pub violating_cases: u64,
    pub viol_by_sig: BTreeMap<String, u64>,
}

// ---------------------------------------------------------------- worker

pub struct WorkerArgs {
    pub tier: Tier,
    pub seed: u64,
    pub from: u64,
    pub to: u64,
    pub skip: Vec<u64>,
    pub out: PathBuf,
    pub hashes: bool,
    pub samples: usize,
}

fn sig_hash(vs: &[Violation]) -> u64 {
    let mut f = Fnv::default();
    for v in vs {
        f.str(&v.signature);
    }
    f.0
}

pub fn worker(prop: &dyn Prop, a: &WorkerArgs) -> i32 {
    crate::harness::install_panic_hook();
    let progress = fs::OpenOptions::new()
        .create(true)
        .write(true)
        .truncate(true)
        .open(a.out.with_extension("progress"))
        .expect("progress file");
    let fatal = fs::OpenOptions::new()
        .create(true)
        .append(true)
        .open(a.out.with_extension("fatal"))
        .expect("fatal file");
    {
        use std::os::fd::AsRawFd;
        crate::alloc::REPORT_FD.store(fatal.as_raw_fd(), std::sync::atomic::Ordering::Relaxed);
    }
    let mut viol_file = fs::OpenOptions::new()
        .create(true)
        .append(true)
        .open(a.out.with_extension("viol.jsonl"))
        .expect("viol file");
    let mut hash_file = if a.hashes {
        Some(std::io::BufWriter::new(
            fs::File::create(a.out.with_extension("hashes")).expect("hash file"),
        ))
    } else {
        None
    };

    let mut st = ChunkStats::default();
    let mut inter: HashSet<u64> = HashSet::new();
    let mut distinct: HashSet<u64> = HashSet::new();
    let mut minimised = 0usize;
    let mut seen_sigs: BTreeSet<String> = BTreeSet::new();
    // known findings are reported, not minimised
    let known = load_known(prop.id());

    for idx in a.from .. a.to {
        if a.skip.contains(&idx) {
            continue;
        }
        let _ = progress.write_at(&idx.to_le_bytes(), 0);
        let cs = case_seed(a.seed, prop.id(), idx);
        let want_sample = st.samples.len() < a.samples;
        let (out, tape) = prop.run_case(idx, Tape::generate(cs), want_sample);
        st.evaluations += 1;
        st.runs += out.runs;
        st.sim_ns = st.sim_ns.saturating_add(out.sim_ns);
        for (k, v) in &out.faults {
            *st.faults.entry(k.to_string()).or_insert(0) += v;
        }
        for (k, v) in &out.probes {
            *st.probes.entry(k.to_string()).or_insert(0) += v;
        }
        if let Some(r) = out.skipped {
            *st.skipped.entry(r.to_string()).or_insert(0) += 1;
        }
        for h in &out.interleavings {
            inter.insert(*h);
        }
        if out.nontrivial && out.skipped.is_none() {
            st.nontrivial += 1;
            distinct.insert(out.distinct_key);
        }
        if want_sample {
            if let Some(s) = &out.sample {
                st.samples.push(s.clone());
            }
        }
        if let Some(hf) = &mut hash_file {
            // the verdict is compared as held / violated: which of two defects a reply trips first can
            // depend on std's per-process HashMap seed inside gamedig or the CLI (see DESIGN.md 2.7)
            let _ = writeln!(hf, "{idx} {:016x} {}", out.log_hash, if out.violations.is_empty() { "held" } else { "violated" });
            let _ = sig_hash;
        }
        if !out.violations.is_empty() {
            st.violating_cases += 1;
            for v in &out.violations {
                *st.viol_by_sig.entry(v.signature.clone()).or_insert(0) += 1;
                if seen_sigs.contains(&v.signature) {
                    continue;
                }
                seen_sigs.insert(v.signature.clone());
                let original_len = tape.total_len();
                let is_known = known.iter().any(|k| sig_matches(&k.signature, &v.signature));
                if is_known {
                    let rec = ViolationRecord {
                        property: prop.id().to_string(),
                        seed: a.seed,
                        case: idx,
                        signature: v.signature.clone(),
                        what: v.what.clone(),
                        expected: v.expected.clone(),
                        observed: v.observed.clone(),
                        tape: tape.data.clone(),
                        original_tape_len: original_len,
                        minimised: false,
                        schedule: Vec::new(),
                        scenario: Value::Null,
                    };
                    let _ = writeln!(viol_file, "{}", serde_json::to_string(&rec).unwrap());
                    continue;
                }
                // minimisation re-executes the case many times: tell the CPU watchdog that this is
                // not the query of case `idx` running away
                let _ = progress.write_at(&(idx | MINIMISING).to_le_bytes(), 0);
                let (min_tape, did_min) = if minimised < MAX_MINIMISED_PER_CHUNK {
                    minimised += 1;
                    (minimise::shrink(prop, idx, &tape.data, &v.signature), true)
                } else {
                    (tape.data.clone(), false)
                };
                // Re-execute the (minimised) tape to render the schedule and to check replay.
                let (det, _) = prop.run_case(idx, Tape::replay(min_tape.clone()), true);
                let again = det.violations.iter().find(|x| x.signature == v.signature);
                let (vv, sched, scen, tape_out) = match again {
                    Some(x) => (x.clone(), det.schedule.clone(), det.sample.clone().unwrap_or(Value::Null), min_tape),
                    None => {
                        // should not happen; fall back to the original tape
                        let (det2, _) = prop.run_case(idx, Tape::replay(tape.data.clone()), true);
                        (v.clone(), det2.schedule.clone(), det2.sample.clone().unwrap_or(Value::Null), tape.data.clone())
                    }
                };
                let rec = ViolationRecord {
                    property: prop.id().to_string(),
                    seed: a.seed,
                    case: idx,
                    signature: vv.signature,
                    what: vv.what,
                    expected: vv.expected,
                    observed: vv.observed,
                    tape: tape_out,
                    original_tape_len: original_len,
                    minimised: did_min,
                    schedule: sched,
                    scenario: scen,
                };
                let _ = writeln!(viol_file, "{}", serde_json::to_string(&rec).unwrap());
                let _ = viol_file.flush();
            }
        }
    }
    st.interleavings = inter.into_iter().collect();
    st.distinct = distinct.into_iter().collect();
    if let Some(mut hf) = hash_file {
        let _ = hf.flush();
    }
    fs::write(a.out.with_extension("stats.json"), serde_json::to_vec(&st).unwrap()).expect("stats");
    0
}

// ---------------------------------------------------------------- parent

#[derive(Deserialize, Default)]
struct KnownFile {
    #[serde(default)]
    findings: Vec<KnownFinding>,
    #[serde(default)]
    #[allow(dead_code)]
    fixed: Vec<Value>,
}

#[derive(Deserialize, Clone)]
struct KnownFinding {
    property: String,
    signature: String,
    what: String,
}

fn sig_matches(pattern: &str, sig: &str) -> bool {
    match pattern.strip_suffix('*') {
        Some(prefix) => sig.starts_with(prefix),
        None => pattern == sig,
    }
}

fn load_known(prop: &str) -> Vec<KnownFinding> {
    let p = verif_dir().join("known_findings.json");
    match fs::read(&p) {
        Ok(b) => {
            match serde_json::from_slice::<KnownFile>(&b) {
                Ok(k) => k.findings.into_iter().filter(|f| f.property == prop).collect(),
                Err(e) => {
                    eprintln!("HARNESS-ERROR cannot parse known_findings.json: {e}");
                    std::process::exit(2);
                }
            }
        }
        Err(_) => Vec::new(),
    }
}

struct Running {
    child: Child,
    chunk: usize,
    prefix: PathBuf,
    last_idx: u64,
    cpu_at_idx: f64,
    /// CPU seconds at which the worker was first seen minimising its current case
    minimising_since: Option<f64>,
}

fn cpu_secs(pid: u32) -> Option<f64> {
    let s = fs::read_to_string(format!("/proc/{pid}/stat")).ok()?;
    let rest = &s[s.rfind(')')? + 2 ..];
    let f: Vec<&str> = rest.split(' ').collect();
    let ut: f64 = f.get(11)?.parse().ok()?;
    let stt: f64 = f.get(12)?.parse().ok()?;
    Some((ut + stt) / 100.0)
}

fn read_progress(prefix: &Path) -> Option<u64> {
    let b = fs::read(prefix.with_extension("progress")).ok()?;
    if b.len() < 8 {
        return None;
    }
    Some(u64::from_le_bytes(b[.. 8].try_into().ok()?))
}

pub struct RunArgs {
    pub tier: Tier,
    pub seed: u64,
    pub workers: usize,
    pub hashes: bool,
    pub limit: Option<u64>,
    pub workdir: Option<PathBuf>,
    pub write_evidence: bool,
}

pub struct Merged {
    pub stats: ChunkStats,
    pub interleavings: HashSet<u64>,
    pub distinct: HashSet<u64>,
    pub records: Vec<ViolationRecord>,
    pub hashes: BTreeMap<u64, (String, String)>,
    pub wall: f64,
    pub cases: u64,
}

struct Chunk {
    from: u64,
    to: u64,
    skip: Vec<u64>,
    attempts: u32,
}

fn spawn_worker(prop: &dyn Prop, a: &RunArgs, c: &Chunk, prefix: &Path, samples: usize) -> Child {
    let exe = std::env::current_exe().expect("current exe");
    let mut cmd = Command::new(exe);
    cmd.arg("worker")
        .arg("--prop")
        .arg(prop.id())
        .arg("--tier")
        .arg(a.tier.name())
        .arg("--seed")
        .arg(a.seed.to_string())
        .arg("--from")
        .arg(c.from.to_string())
        .arg("--to")
        .arg(c.to.to_string())
        .arg("--out")
        .arg(prefix)
        .arg("--samples")
        .arg(samples.to_string());
    if !c.skip.is_empty() {
        cmd.arg("--skip")
            .arg(c.skip.iter().map(u64::to_string).collect::<Vec<_>>().join(","));
    }
    if a.hashes {
        cmd.arg("--hashes");
    }
    cmd.env("RUST_BACKTRACE", "0")
        .env("RUST_LIB_BACKTRACE", "0")
        .stdin(Stdio::null())
        .stdout(Stdio::null())
        .stderr(fs::File::create(prefix.with_extension("stderr")).expect("stderr file"));
    cmd.spawn().expect("spawn worker")
}

fn abort_record(prop: &dyn Prop, a: &RunArgs, idx: u64, prefix: &Path, status: &str, hang: bool) -> ViolationRecord {
    let fatal = fs::read_to_string(prefix.with_extension("fatal")).unwrap_or_default();
    let stderr = fs::read_to_string(prefix.with_extension("stderr")).unwrap_or_default();
    let (signature, what) = if hang {
        (
            "hang/cpu".to_string(),
            format!("worker spent more than {CPU_HANG_SECS} s of CPU time inside one query and was killed"),
        )
    } else if let Some(line) = fatal.lines().rev().find(|l| l.starts_with("HUGE_ALLOC")) {
        let mut it = line.split_whitespace();
        it.next();
        let size = it.next().unwrap_or("?");
        let func = it.next().unwrap_or("unknown");
        (
            format!("abort/huge-alloc/{func}"),
            format!("a single allocation request of {size} bytes (> 256 MiB) in {func}; the process would abort"),
        )
    } else if stderr.contains("stack overflow") || stderr.contains("has overflowed its stack") {
        ("abort/stack-overflow".to_string(), "stack overflow".to_string())
    } else if stderr.contains("memory allocation of") {
        ("abort/alloc-failed".to_string(), "memory allocation failed (abort)".to_string())
    } else {
        (format!("abort/{status}"), format!("worker process died: {status}"))
    };
    // The tape of an aborting case cannot be read back from the dead worker: regenerate it
    // in a child that only records the tape (the draw sequence up to the abort is what matters;
    // replay regenerates from the seed, which is exact).
    ViolationRecord {
        property: prop.id().to_string(),
        seed: a.seed,
        case: idx,
        signature,
        what,
        expected: "the query returns Ok or Err".to_string(),
        observed: format!("process-level failure ({status})"),
        tape: TapeData { lanes: Vec::new() },
        original_tape_len: 0,
        minimised: false,
        schedule: vec![format!(
            "process-level failure: replay regenerates the tape from seed={} case={idx}",
            a.seed
        )],
        scenario: Value::Null,
    }
}

pub fn run_chunks(prop: &dyn Prop, a: &RunArgs) -> Merged {
    let t0 = Instant::now();
    let total = a.limit.map_or(prop.cases(a.tier), |l| l.min(prop.cases(a.tier)));
    let workdir = a.workdir.clone().unwrap_or_else(|| {
        verif_dir()
            .join("work")
            .join(format!("{}-{}-{}", prop.id(), a.tier.name(), std::process::id()))
    });
    let _ = fs::remove_dir_all(&workdir);
    fs::create_dir_all(&workdir).expect("workdir");

    let per = (total / (a.workers as u64 * 6)).clamp(50, 40_000).max(1);
    let mut chunks: Vec<Chunk> = Vec::new();
    let mut s = 0;
    while s < total {
        let e = (s + per).min(total);
        chunks.push(Chunk { from: s, to: e, skip: Vec::new(), attempts: 0 });
        s = e;
    }
    let mut queue: Vec<usize> = (0 .. chunks.len()).rev().collect();
    let mut running: Vec<Running> = Vec::new();
    let mut merged = Merged {
        stats: ChunkStats::default(),
        interleavings: HashSet::new(),
        distinct: HashSet::new(),
        records: Vec::new(),
        hashes: BTreeMap::new(),
        wall: 0.0,
        cases: total,
    };
    let mut sample_budget = 3usize;
    let mut seen_abort_cases: HashSet<u64> = HashSet::new();

    let finish_chunk = |merged: &mut Merged, prefix: &Path, with_stats: bool| {
        if with_stats {
            match fs::read(prefix.with_extension("stats.json")) {
                Ok(b) => {
                    let st: ChunkStats = serde_json::from_slice(&b).expect("chunk stats");
                    let m = &mut merged.stats;
                    m.evaluations += st.evaluations;
                    m.runs += st.runs;
                    m.sim_ns = m.sim_ns.saturating_add(st.sim_ns);
                    m.nontrivial += st.nontrivial;
                    m.violating_cases += st.violating_cases;
                    for (k, v) in st.faults {
                        *m.faults.entry(k).or_insert(0) += v;
                    }
                    for (k, v) in st.probes {
                        *m.probes.entry(k).or_insert(0) += v;
                    }
                    for (k, v) in st.skipped {
                        *m.skipped.entry(k).or_insert(0) += v;
                    }
                    for (k, v) in st.viol_by_sig {
                        *m.viol_by_sig.entry(k).or_insert(0) += v;
                    }
                    for s in st.samples {
                        if m.samples.len() < 4 {
                            m.samples.push(s);
                        }
                    }
                    merged.interleavings.extend(st.interleavings);
                    merged.distinct.extend(st.distinct);
                }
                Err(e) => {
                    eprintln!("HARNESS-ERROR missing chunk stats {}: {e}", prefix.display());
                    std::process::exit(2);
                }
            }
            if let Ok(h) = fs::read_to_string(prefix.with_extension("hashes")) {
                for line in h.lines() {
                    let mut it = line.split(' ');
                    if let (Some(i), Some(a), Some(b)) = (it.next(), it.next(), it.next()) {
                        merged
                            .hashes
                            .insert(i.parse().unwrap_or(u64::MAX), (a.to_string(), b.to_string()));
                    }
                }
            }
        }
        if let Ok(v) = fs::read_to_string(prefix.with_extension("viol.jsonl")) {
            for line in v.lines() {
                if let Ok(r) = serde_json::from_str::<ViolationRecord>(line) {
                    if !merged
                        .records
                        .iter()
                        .any(|x| x.case == r.case && x.signature == r.signature)
                    {
                        merged.records.push(r);
                    }
                }
            }
        }
        for ext in ["stats.json", "hashes", "viol.jsonl", "progress", "fatal", "stderr"] {
            let _ = fs::remove_file(prefix.with_extension(ext));
        }
    };

    loop {
        while running.len() < a.workers {
            let Some(ci) = queue.pop() else { break };
            let prefix = workdir.join(format!("c{ci}_{}", chunks[ci].attempts));
            let samples = if sample_budget > 0 && chunks[ci].attempts == 0 {
                sample_budget -= 1;
                2
            } else {
                0
            };
            let child = spawn_worker(prop, a, &chunks[ci], &prefix, samples);
            running.push(Running {
                child,
                chunk: ci,
                prefix,
                last_idx: u64::MAX,
                cpu_at_idx: 0.0,
                minimising_since: None,
            });
        }
        if running.is_empty() {
            break;
        }
        std::thread::sleep(Duration::from_millis(20));
        let mut i = 0;
        while i < running.len() {
            let r = &mut running[i];
            let mut died: Option<(String, bool)> = None;
            match r.child.try_wait() {
                Ok(Some(st)) => {
                    if st.success() {
                        let r = running.swap_remove(i);
                        finish_chunk(&mut merged, &r.prefix, true);
                        continue;
                    }
                    let desc = match (st.code(), st.signal()) {
                        (Some(2), _) => {
                            let e = fs::read_to_string(r.prefix.with_extension("stderr")).unwrap_or_default();
                            eprintln!("HARNESS-ERROR worker exited 2:\n{e}");
                            std::process::exit(2);
                        }
                        (Some(c), _) => format!("exit-{c}"),
                        (None, Some(s)) => format!("signal-{s}"),
                        _ => "unknown".to_string(),
                    };
                    died = Some((desc, false));
                }
                Ok(None) => {
                    // CPU watchdog
                    let pid = r.child.id();
                    if let (Some(idx), Some(cpu)) = (read_progress(&r.prefix), cpu_secs(pid)) {
                        if idx & MINIMISING != 0 {
                            // shrinking re-executes the case many times and is not charged to the per-case
                            // budget, but it is bounded too (a candidate can make the client spin)
                            let since = *r.minimising_since.get_or_insert(cpu);
                            if cpu - since > 6.0 * CPU_HANG_SECS {
                                let _ = r.child.kill();
                                let _ = r.child.wait();
                                died = Some(("killed-cpu-watchdog-while-minimising".to_string(), true));
                            }
                            r.last_idx = idx;
                            r.cpu_at_idx = cpu;
                        } else if idx != r.last_idx {
                            r.minimising_since = None;
                            r.last_idx = idx;
                            r.cpu_at_idx = cpu;
                        } else if cpu - r.cpu_at_idx > CPU_HANG_SECS {
                            let _ = r.child.kill();
                            let _ = r.child.wait();
                            died = Some(("killed-cpu-watchdog".to_string(), true));
                        }
                    }
                }
                Err(e) => {
                    eprintln!("HARNESS-ERROR wait failed: {e}");
                    std::process::exit(2);
                }
            }
            if let Some((desc, hang)) = died {
                let r = running.swap_remove(i);
                let ci = r.chunk;
                match read_progress(&r.prefix).map(|i| i & !MINIMISING) {
                    Some(idx) if idx >= chunks[ci].from && idx < chunks[ci].to => {
                        if seen_abort_cases.insert(idx) {
                            merged.records.push(abort_record(prop, a, idx, &r.prefix, &desc, hang));
                            *merged.stats.viol_by_sig.entry(merged.records.last().unwrap().signature.clone()).or_insert(0) += 1;
                            merged.stats.violating_cases += 1;
                            merged.stats.evaluations += 1;
                        }
                        chunks[ci].skip.push(idx);
                    }
                    _ => {
                        let e = fs::read_to_string(r.prefix.with_extension("stderr")).unwrap_or_default();
                        eprintln!("HARNESS-ERROR worker died ({desc}) before its first case:\n{e}");
                        std::process::exit(2);
                    }
                }
                finish_chunk(&mut merged, &r.prefix, false);
                // every process-level failure costs up to 20 s of CPU; a dozen of them is verdict enough
                if seen_abort_cases.len() >= 12 {
                    eprintln!("stopping early: {} cases hung or aborted the worker process", seen_abort_cases.len());
                    queue.clear();
                    for mut r in running.drain(..) {
                        let _ = r.child.kill();
                        let _ = r.child.wait();
                        finish_chunk(&mut merged, &r.prefix, false);
                    }
                    break;
                }
                chunks[ci].attempts += 1;
                if chunks[ci].attempts > 2000 {
                    eprintln!("HARNESS-ERROR chunk {ci} keeps dying");
                    std::process::exit(2);
                }
                queue.push(ci);
                continue;
            }
            i += 1;
        }
    }
    let _ = fs::remove_dir_all(&workdir);
    merged.wall = t0.elapsed().as_secs_f64();
    merged
}

/// Execute a replay file in a child process and report the signatures seen.
pub fn replay_in_child(path: &Path) -> (Vec<String>, String) {
    let exe = std::env::current_exe().expect("current exe");
    let tmp = verif_dir().join("work").join(format!("replay-{}", std::process::id()));
    let _ = fs::create_dir_all(&tmp);
    let prefix = tmp.join("r");
    let so = fs::File::create(prefix.with_extension("stdout")).expect("replay stdout file");
    let se = fs::File::create(prefix.with_extension("stderr")).expect("replay stderr file");
    let mut child = Command::new(exe)
        .arg("replay-inner")
        .arg(path)
        .arg("--out")
        .arg(&prefix)
        .env("RUST_BACKTRACE", "0")
        .env("RUST_LIB_BACKTRACE", "0")
        .stdin(Stdio::null())
        .stdout(so)
        .stderr(se)
        .spawn()
        .expect("spawn replay");
    // same CPU watchdog as for workers: a replayed hang must not hang the check
    let mut hung = false;
    let status = loop {
        match child.try_wait() {
            Ok(Some(st)) => break st,
            Ok(None) => {
                if cpu_secs(child.id()).is_some_and(|c| c > CPU_HANG_SECS) {
                    let _ = child.kill();
                    hung = true;
                    break child.wait().expect("wait replay");
                }
                std::thread::sleep(Duration::from_millis(20));
            }
            Err(e) => {
                eprintln!("HARNESS-ERROR wait failed: {e}");
                std::process::exit(2);
            }
        }
    };
    struct Out {
        status: std::process::ExitStatus,
        stdout: Vec<u8>,
        stderr: Vec<u8>,
    }
    let out = Out {
        status,
        stdout: fs::read(prefix.with_extension("stdout")).unwrap_or_default(),
        stderr: fs::read(prefix.with_extension("stderr")).unwrap_or_default(),
    };
    let stdout = String::from_utf8_lossy(&out.stdout).to_string();
    let mut sigs: Vec<String> = stdout
        .lines()
        .filter_map(|l| l.strip_prefix("REPLAY-SIGNATURE ").map(str::to_string))
        .collect();
    if hung {
        sigs.push("hang/cpu".to_string());
    } else if !out.status.success() && out.status.code() != Some(1) {
        let fatal = fs::read_to_string(prefix.with_extension("fatal")).unwrap_or_default();
        let stderr = String::from_utf8_lossy(&out.stderr).to_string();
        if let Some(line) = fatal.lines().rev().find(|l| l.starts_with("HUGE_ALLOC")) {
            let func = line.split_whitespace().nth(2).unwrap_or("unknown");
            sigs.push(format!("abort/huge-alloc/{func}"));
        } else if stderr.contains("overflowed its stack") {
            sigs.push("abort/stack-overflow".to_string());
        } else if let Some(s) = out.status.signal() {
            sigs.push(format!("abort/signal-{s}"));
        } else if let Some(c) = out.status.code() {
            sigs.push(format!("abort/exit-{c}"));
        }
    }
    let _ = fs::remove_dir_all(&tmp);
    (sigs, stdout)
}

pub fn replay_inner(prop: &dyn Prop, rec: &ViolationRecord, out: &Path) -> i32 {
    crate::harness::install_panic_hook();
    let fatal = fs::OpenOptions::new()
        .create(true)
        .append(true)
        .open(out.with_extension("fatal"))
        .expect("fatal file");
    {
        use std::os::fd::AsRawFd;
        crate::alloc::REPORT_FD.store(fatal.as_raw_fd(), std::sync::atomic::Ordering::Relaxed);
    }
    let tape = if rec.tape.lanes.is_empty() {
        Tape::generate(case_seed(rec.seed, &rec.property, rec.case))
    } else {
        Tape::replay(rec.tape.clone())
    };
    let (o, _) = prop.run_case(rec.case, tape, true);
    println!("REPLAY property={} seed={} case={}", rec.property, rec.seed, rec.case);
    if let Some(s) = &o.sample {
        println!("scenario: {s}");
    }
    for l in &o.schedule {
        println!("  {l}");
    }
    for v in &o.violations {
        println!("REPLAY-SIGNATURE {}", v.signature);
        println!("  what: {}", v.what);
        println!("  expected: {}", v.expected);
        println!("  observed: {}", v.observed);
    }
    if o.violations.iter().any(|v| v.signature == rec.signature) {
        1
    } else {
        0
    }
}

pub fn evidence_path(id: &str) -> PathBuf { verif_dir().join("evidence").join(format!("{id}.json")) }

/// Full check of one property: run, filter known findings, write replay files
/// and evidence, print the verdict lines, return the exit status.
pub fn check(prop: &dyn Prop, a: &RunArgs, selftest: Option<Value>) -> i32 {
    let merged = run_chunks(prop, a);
    let known = load_known(prop.id());
    let mut by_sig: BTreeMap<String, Vec<&ViolationRecord>> = BTreeMap::new();
    for r in &merged.records {
        by_sig.entry(r.signature.clone()).or_default().push(r);
    }
    let mut known_seen: Vec<Value> = Vec::new();
    let mut unknown: Vec<(&String, &ViolationRecord)> = Vec::new();
    for (sig, recs) in &by_sig {
        // prefer a minimised record, then the smallest tape
        let best = recs
            .iter()
            .min_by_key(|r| (!r.minimised, r.tape.lanes.iter().map(Vec::len).sum::<usize>()))
            .unwrap();
        if let Some(k) = known.iter().find(|k| sig_matches(&k.signature, sig)) {
            println!("KNOWN-FINDING: property={} {} [{}]", prop.id(), k.what, sig);
            known_seen.push(json!({"signature": sig, "what": k.what, "cases": merged.stats.viol_by_sig.get(sig)}));
        } else {
            unknown.push((sig, best));
        }
    }
    let mut exit = 0;
    let replay_dir = verif_dir().join("evidence").join("replays");
    let mut violation_list: Vec<Value> = Vec::new();
    let max_replays: usize = std::env::var("GDSIM_MAX_REPLAYS").ok().and_then(|s| s.parse().ok()).unwrap_or(8);
    if a.write_evidence || !unknown.is_empty() {
        // replay files of earlier runs of this property are stale now
        if let Ok(rd) = fs::read_dir(&replay_dir) {
            for e in rd.flatten() {
                if e.file_name().to_string_lossy().starts_with(&format!("{}-", prop.id())) {
                    let _ = fs::remove_file(e.path());
                }
            }
        }
    }
    for (n, (sig, rec)) in unknown.iter().enumerate() {
        exit = 1;
        if n >= max_replays {
            println!("(further distinct violation signature not written out: {sig})");
            continue;
        }
        let _ = fs::create_dir_all(&replay_dir);
        let path = replay_dir.join(format!("{}-{}-{}.json", prop.id(), rec.seed, rec.case));
        fs::write(&path, serde_json::to_vec_pretty(rec).unwrap()).expect("write replay");
        // The replay must reproduce the same signature in a fresh process.
        let (sigs, _) = replay_in_child(&path);
        let reproduced = sigs.iter().any(|s| s == *sig);
        if !reproduced && sigs.is_empty() {
            eprintln!("HARNESS-ERROR replay of {} did not reproduce any violation (expected {sig})", path.display());
            exit = 2;
        } else if !reproduced {
            // gamedig iterates std HashMaps (RandomState): which of two defects a hostile reply hits
            // first can differ between processes. The violation itself reproduced.
            println!("  note: replay reproduced a violation with a different signature: {sigs:?}");
        }
        println!("VIOLATION property={} replay={}", prop.id(), path.display());
        println!("  signature: {sig}");
        println!("  what: {}", rec.what);
        println!("  expected: {}", rec.expected);
        println!("  observed: {}", rec.observed);
        println!(
            "  cases with this signature: {}",
            merged.stats.viol_by_sig.get(*sig).copied().unwrap_or(1)
        );
        violation_list.push(json!({"signature": sig, "replay": path, "what": rec.what}));
    }

    // required probes
    let mut probe_missing: Vec<&str> = Vec::new();
    if a.tier == Tier::Thorough && a.limit.is_none() {
        for p in prop.required_probes() {
            if merged.stats.probes.get(p).copied().unwrap_or(0) == 0 && merged.stats.faults.get(p).copied().unwrap_or(0) == 0 {
                probe_missing.push(p);
            }
        }
        if !probe_missing.is_empty() {
            eprintln!("HARNESS-ERROR required probes never fired: {probe_missing:?}");
            if exit == 0 {
                exit = 2;
            }
        }
    }

    let distinct_nontrivial = merged.distinct.len() as u64;
    if a.write_evidence {
        let hours = merged.wall / 3600.0;
        let ev = json!({
            "property_id": prop.id(),
            "tier": a.tier.name(),
            "seed": a.seed,
            "level": prop.level(),
            "coverage": {
                "evaluations": merged.stats.evaluations,
                "distinct_nontrivial": distinct_nontrivial,
                "rule": prop.rule(),
                "samples": merged.stats.samples,
                "exhaustive": prop.exhaustive(a.tier) && a.limit.is_none(),
                "simulated_runs": merged.stats.runs,
                "simulated_runs_per_hour": if hours > 0.0 { (merged.stats.runs as f64 / hours) as u64 } else { 0 },
                "cases_per_hour": if hours > 0.0 { (merged.stats.evaluations as f64 / hours) as u64 } else { 0 },
                "seeds": format!("VERIF_SEED={} -> one derived seed per case ({} cases)", a.seed, merged.stats.evaluations),
                "simulated_time_s": merged.stats.sim_ns as f64 / 1e9,
                "fault_kinds_fired": merged.stats.faults,
                "probes": merged.stats.probes,
                "distinct_interleavings": merged.interleavings.len(),
                "interleaving_measure": "distinct hashes of the per-run event-order signature (event kind, direction, request kind, outcome class)*",
                "nontrivial_cases": merged.stats.nontrivial,
                "skipped": merged.stats.skipped,
                "components": prop.components(),
                "known_findings_seen": known_seen,
                "violation_signatures": violation_list,
                "violating_cases": merged.stats.violating_cases,
                "determinism_selftest": selftest,
                "workers": a.workers,
            },
            "assumptions": prop.assumptions(),
            "wall_s": merged.wall,
            "violations": unknown.len(),
        });
        let _ = fs::create_dir_all(verif_dir().join("evidence"));
        fs::write(evidence_path(prop.id()), serde_json::to_vec_pretty(&ev).unwrap()).expect("write evidence");
    }
    println!(
        "{} {}: cases={} runs={} nontrivial-distinct={} interleavings={} sim-time={:.1}s wall={:.1}s known-findings={} violations={}",
        prop.id(),
        a.tier.name(),
        merged.stats.evaluations,
        merged.stats.runs,
        distinct_nontrivial,
        merged.interleavings.len(),
        merged.stats.sim_ns as f64 / 1e9,
        merged.wall,
        known_seen.len(),
        unknown.len()
    );
    exit
}

/// Determinism self-test: the same cases twice, with 1 worker and with many,
/// in different processes; per-case event-log hashes and verdicts must agree.
pub fn selftest(prop: &dyn Prop, tier: Tier, seed: u64, n: u64, workers: usize) -> (Value, bool) {
    let mk = |w: usize, tag: &str| {
        RunArgs {
            tier,
            seed,
            workers: w,
            hashes: true,
            limit: Some(n),
            workdir: Some(
                verif_dir()
                    .join("work")
                    .join(format!("{}-selftest-{tag}-{}", prop.id(), std::process::id())),
            ),
            write_evidence: false,
        }
    };
    let a = run_chunks(prop, &mk(1, "a"));
    let b = run_chunks(prop, &mk(workers.max(2), "b"));
    let mut mismatches = 0u64;
    let mut first: Option<u64> = None;
    let mut first_detail = String::new();
    for (idx, ha) in &a.hashes {
        match b.hashes.get(idx) {
            Some(hb) if hb == ha => {}
            other => {
                mismatches += 1;
                if first.is_none() {
                    first = Some(*idx);
                    first_detail = format!("{ha:?} vs {other:?}");
                }
            }
        }
    }
    let compared = a.hashes.len() as u64;
    let ok = mismatches == 0 && compared > 0 && a.hashes.len() == b.hashes.len();
    (
        json!({"cases_run_twice": compared, "worker_counts": [1, workers.max(2)], "mismatches": mismatches, "first_mismatch_case": first, "first_mismatch": first_detail,
               "compared": "per-case hash of the full event log (every syscall, network decision and server action with bytes; master-server filter order canonicalised) and the verdict (held / violated)"}),
        ok,
    )
}

pub fn unused(_: &CaseOut) {}

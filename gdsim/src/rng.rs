//! xoshiro256** and a splitmix-style mixer. Own implementation so that replay
//! never depends on the version of an external crate.

#[derive(Clone, Debug)]
pub struct Rng {
    s: [u64; 4],
}

pub fn splitmix(x: &mut u64) -> u64 {
    *x = x.wrapping_add(0x9E37_79B9_7F4A_7C15);
    let mut z = *x;
    z = (z ^ (z >> 30)).wrapping_mul(0xBF58_476D_1CE4_E5B9);
    z = (z ^ (z >> 27)).wrapping_mul(0x94D0_49BB_1331_11EB);
    z ^ (z >> 31)
}

/// Mix several integers into one seed.
pub fn mix(parts: &[u64]) -> u64 {
    let mut acc = 0x243F_6A88_85A3_08D3u64;
    for p in parts {
        acc ^= *p;
        let mut t = acc;
        acc = splitmix(&mut t) ^ t.rotate_left(17);
    }
    acc
}

pub fn hash_str(s: &str) -> u64 {
    // FNV-1a
    let mut h = 0xcbf2_9ce4_8422_2325u64;
    for b in s.bytes() {
        h ^= b as u64;
        h = h.wrapping_mul(0x0000_0100_0000_01B3);
    }
    h
}

impl Rng {
    pub fn new(seed: u64) -> Self {
        let mut x = seed;
        let s = [
            splitmix(&mut x),
            splitmix(&mut x),
            splitmix(&mut x),
            splitmix(&mut x),
        ];
        Self { s }
    }

    pub fn next(&mut self) -> u64 {
        let result = self.s[1].wrapping_mul(5).rotate_left(7).wrapping_mul(9);
        let t = self.s[1] << 17;
        self.s[2] ^= self.s[0];
        self.s[3] ^= self.s[1];
        self.s[1] ^= self.s[2];
        self.s[0] ^= self.s[3];
        self.s[2] ^= t;
        self.s[3] = self.s[3].rotate_left(45);
        result
    }
}

/// Incremental FNV-1a hasher used for event-log and interleaving hashes
/// (stable across runs and processes, unlike `RandomState`).
#[derive(Clone, Copy, Debug)]
pub struct Fnv(pub u64);

impl Default for Fnv {
    fn default() -> Self { Self(0xcbf2_9ce4_8422_2325) }
}

impl Fnv {
    pub fn bytes(&mut self, b: &[u8]) {
        for x in b {
            self.0 ^= *x as u64;
            self.0 = self.0.wrapping_mul(0x0000_0100_0000_01B3);
        }
    }

    pub fn u64(&mut self, v: u64) { self.bytes(&v.to_le_bytes()); }

    pub fn str(&mut self, s: &str) {
        self.bytes(s.as_bytes());
        self.bytes(&[0xff]);
    }
}

//! A strict XML 1.1 well-formedness checker (Name production, tag balance,
//! character ranges, escaping, references) that also returns the element tree.

#[derive(Debug, Clone, PartialEq)]
pub enum Node {
    Elem { name: String, children: Vec<Node> },
    Text(String),
}

fn is_name_start(c: char) -> bool {
    matches!(c, ':' | 'A'..='Z' | '_' | 'a'..='z' | '\u{C0}'..='\u{D6}' | '\u{D8}'..='\u{F6}' | '\u{F8}'..='\u{2FF}' | '\u{370}'..='\u{37D}' | '\u{37F}'..='\u{1FFF}'
        | '\u{200C}'..='\u{200D}' | '\u{2070}'..='\u{218F}' | '\u{2C00}'..='\u{2FEF}' | '\u{3001}'..='\u{D7FF}' | '\u{F900}'..='\u{FDCF}' | '\u{FDF0}'..='\u{FFFD}' | '\u{10000}'..='\u{EFFFF}')
}

fn is_name_char(c: char) -> bool { is_name_start(c) || matches!(c, '-' | '.' | '0'..='9' | '\u{B7}' | '\u{300}'..='\u{36F}' | '\u{203F}'..='\u{2040}') }

/// XML 1.0 Char: the only characters a 1.0 document may contain, literally or as a reference.
fn is_char_10(u: u32) -> bool { matches!(u, 0x9 | 0xA | 0xD | 0x20 ..= 0xD7FF | 0xE000 ..= 0xFFFD | 0x1_0000 ..= 0x10_FFFF) }

/// XML 1.1 Char that may appear literally (RestrictedChar must be a character reference).
fn is_literal_char(c: char) -> bool {
    let u = c as u32;
    if u == 0 || u == 0xFFFE || u == 0xFFFF {
        return false;
    }
    let restricted = matches!(u, 0x1..=0x8 | 0xB..=0xC | 0xE..=0x1F | 0x7F..=0x84 | 0x86..=0x9F);
    !restricted
}

fn is_ref_char(u: u32) -> bool { u != 0 && u != 0xFFFE && u != 0xFFFF && char::from_u32(u).is_some() }

struct P<'a> {
    s: &'a str,
    i: usize,
    /// the document declares version 1.1 (without a declaration, or with "1.0", the 1.0 rules apply)
    v11: bool,
}

impl<'a> P<'a> {
    fn rest(&self) -> &'a str { &self.s[self.i ..] }

    fn peek(&self) -> Option<char> { self.rest().chars().next() }

    fn eat(&mut self, lit: &str) -> bool {
        if self.rest().starts_with(lit) {
            self.i += lit.len();
            true
        } else {
            false
        }
    }

    fn ws(&mut self) -> bool {
        let start = self.i;
        while let Some(c) = self.peek() {
            if matches!(c, ' ' | '\t' | '\r' | '\n') {
                self.i += 1;
            } else {
                break;
            }
        }
        self.i > start
    }

    fn name(&mut self) -> Result<String, String> {
        let mut out = String::new();
        match self.peek() {
            Some(c) if is_name_start(c) => {
                out.push(c);
                self.i += c.len_utf8();
            }
            other => return Err(format!("at byte {}: {:?} cannot start an XML name", self.i, other)),
        }
        while let Some(c) = self.peek() {
            if is_name_char(c) {
                out.push(c);
                self.i += c.len_utf8();
            } else {
                break;
            }
        }
        Ok(out)
    }

    fn reference(&mut self) -> Result<char, String> {
        // after '&'
        if self.eat("#x") {
            let end = self.rest().find(';').ok_or("unterminated character reference")?;
            let v = u32::from_str_radix(&self.rest()[.. end], 16).map_err(|_| "bad hex character reference".to_string())?;
            self.i += end + 1;
            if !(if self.v11 { is_ref_char(v) } else { is_char_10(v) }) {
                return Err(format!("character reference &#x{v:x}; is not a legal XML {} character", if self.v11 { "1.1" } else { "1.0" }));
            }
            return Ok(char::from_u32(v).unwrap());
        }
        if self.eat("#") {
            let end = self.rest().find(';').ok_or("unterminated character reference")?;
            let v: u32 = self.rest()[.. end].parse().map_err(|_| "bad decimal character reference".to_string())?;
            self.i += end + 1;
            if !(if self.v11 { is_ref_char(v) } else { is_char_10(v) }) {
                return Err(format!("character reference &#{v}; is not a legal XML {} character", if self.v11 { "1.1" } else { "1.0" }));
            }
            return Ok(char::from_u32(v).unwrap());
        }
        for (n, c) in [("lt;", '<'), ("gt;", '>'), ("amp;", '&'), ("apos;", '\''), ("quot;", '"')] {
            if self.eat(n) {
                return Ok(c);
            }
        }
        Err(format!("at byte {}: '&' does not start a known reference", self.i))
    }

    fn attr_value(&mut self) -> Result<(), String> {
        let q = match self.peek() {
            Some(c @ ('"' | '\'')) => c,
            _ => return Err("attribute value must be quoted".into()),
        };
        self.i += 1;
        loop {
            match self.peek() {
                None => return Err("unterminated attribute value".into()),
                Some(c) if c == q => {
                    self.i += 1;
                    return Ok(());
                }
                Some('<') => return Err("'<' in attribute value".into()),
                Some('&') => {
                    self.i += 1;
                    self.reference()?;
                }
                Some(c) if !(if self.v11 { is_literal_char(c) } else { is_char_10(c as u32) }) => return Err(format!("illegal literal character U+{:04X} in attribute value", c as u32)),
                Some(c) => self.i += c.len_utf8(),
            }
        }
    }

    fn element(&mut self, depth: usize) -> Result<Node, String> {
        if depth > 200 {
            return Err("nesting too deep".into());
        }
        // after '<'
        let name = self.name()?;
        loop {
            let had_ws = self.ws();
            if self.eat("/>") {
                return Ok(Node::Elem { name, children: Vec::new() });
            }
            if self.eat(">") {
                break;
            }
            if !had_ws {
                return Err(format!("at byte {}: malformed start tag <{name}", self.i));
            }
            let _attr = self.name()?;
            self.ws();
            if !self.eat("=") {
                return Err("attribute without '='".into());
            }
            self.ws();
            self.attr_value()?;
        }
        let mut children = Vec::new();
        let mut text = String::new();
        loop {
            if self.eat("</") {
                let end = self.name()?;
                self.ws();
                if !self.eat(">") {
                    return Err(format!("malformed end tag </{end}"));
                }
                if end != name {
                    return Err(format!("end tag </{end}> does not match start tag <{name}>"));
                }
                if !text.is_empty() {
                    children.push(Node::Text(std::mem::take(&mut text)));
                }
                return Ok(Node::Elem { name, children });
            }
            if self.eat("<!--") {
                let end = self.rest().find("-->").ok_or("unterminated comment")?;
                self.i += end + 3;
                continue;
            }
            if self.eat("<![CDATA[") {
                let end = self.rest().find("]]>").ok_or("unterminated CDATA section")?;
                text.push_str(&self.rest()[.. end]);
                self.i += end + 3;
                continue;
            }
            if self.eat("<?") {
                let end = self.rest().find("?>").ok_or("unterminated processing instruction")?;
                self.i += end + 2;
                continue;
            }
            if self.eat("<") {
                if !text.is_empty() {
                    children.push(Node::Text(std::mem::take(&mut text)));
                }
                children.push(self.element(depth + 1)?);
                continue;
            }
            match self.peek() {
                None => return Err(format!("element <{name}> is never closed")),
                Some('&') => {
                    self.i += 1;
                    text.push(self.reference()?);
                }
                Some(c) => {
                    if !(if self.v11 { is_literal_char(c) } else { is_char_10(c as u32) }) {
                        return Err(format!("illegal literal character U+{:04X} in character data of <{name}>", c as u32));
                    }
                    if self.rest().starts_with("]]>") {
                        return Err("']]>' in character data".into());
                    }
                    self.i += c.len_utf8();
                    // XML 1.1 section 2.11: literal line ends are normalised to a line feed
                    match c {
                        '\r' => {
                            if matches!(self.peek(), Some('\n')) || (self.v11 && self.peek() == Some('\u{85}')) {
                                self.i += self.peek().unwrap().len_utf8();
                            }
                            text.push('\n');
                        }
                        '\u{85}' | '\u{2028}' if self.v11 => text.push('\n'),
                        _ => text.push(c),
                    }
                }
            }
        }
    }
}

/// Does the JSON value hold an object key that is not an XML Name?
pub fn has_key_that_is_no_name(v: &serde_json::Value) -> bool {
    use serde_json::Value;
    match v {
        Value::Object(o) => {
            o.iter().any(|(k, vv)| {
                let mut cs = k.chars();
                let ok = cs.next().is_some_and(is_name_start) && cs.all(is_name_char);
                !ok || has_key_that_is_no_name(vv)
            })
        }
        Value::Array(a) => a.iter().any(has_key_that_is_no_name),
        _ => false,
    }
}

/// Parse a complete document; returns the root element.
pub fn parse(doc: &str) -> Result<Node, String> {
    let mut p = P { s: doc, i: 0, v11: false };
    if p.eat("<?xml") {
        if !p.ws() {
            return Err("malformed XML declaration".into());
        }
        if !p.eat("version") {
            return Err("XML declaration without version".into());
        }
        p.ws();
        if !p.eat("=") {
            return Err("malformed XML declaration".into());
        }
        p.ws();
        let ver_start = p.i;
        p.attr_value()?;
        let ver = &doc[ver_start + 1 .. p.i - 1];
        if ver != "1.0" && ver != "1.1" {
            return Err(format!("unsupported XML version {ver:?}"));
        }
        p.v11 = ver == "1.1";
        let end = p.rest().find("?>").ok_or("unterminated XML declaration")?;
        p.i += end + 2;
    }
    loop {
        p.ws();
        if p.eat("<!--") {
            let end = p.rest().find("-->").ok_or("unterminated comment")?;
            p.i += end + 3;
        } else {
            break;
        }
    }
    if !p.eat("<") {
        return Err(format!("at byte {}: expected the root element", p.i));
    }
    let root = p.element(0)?;
    p.ws();
    if !p.rest().is_empty() {
        return Err(format!("content after the root element at byte {}", p.i));
    }
    Ok(root)
}

/// The tree the documented JSON -> XML mapping of the command-line tool must produce.
pub fn expected_tree(v: &serde_json::Value) -> Node {
    use serde_json::Value;
    fn go(key: Option<&str>, v: &Value, out: &mut Vec<Node>) {
        match v {
            Value::Object(o) => {
                let mut kids = Vec::new();
                for (k, vv) in o {
                    go(Some(k), vv, &mut kids);
                }
                match key {
                    Some(k) => out.push(Node::Elem { name: k.to_string(), children: kids }),
                    None => out.extend(kids),
                }
            }
            Value::Array(a) => {
                for vv in a {
                    go(Some(key.unwrap_or("item")), vv, out);
                }
            }
            Value::Null => {
                if let Some(k) = key {
                    out.push(Node::Elem { name: k.to_string(), children: Vec::new() });
                }
            }
            other => {
                let text = match other {
                    Value::String(s) => s.clone(),
                    x => x.to_string().trim_matches('"').to_string(),
                };
                let kids = if text.is_empty() { Vec::new() } else { vec![Node::Text(text)] };
                match key {
                    Some(k) => out.push(Node::Elem { name: k.to_string(), children: kids }),
                    None => out.extend(kids),
                }
            }
        }
    }
    let mut kids = Vec::new();
    go(None, v, &mut kids);
    Node::Elem { name: "data".into(), children: kids }
}

/// First difference between two trees as a path.
pub fn tree_diff(e: &Node, o: &Node, path: &str) -> Option<String> {
    match (e, o) {
        (Node::Text(a), Node::Text(b)) => (a != b).then(|| format!("{path}: text {a:?} vs {b:?}")),
        (Node::Elem { name: na, children: ca }, Node::Elem { name: nb, children: cb }) => {
            if na != nb {
                return Some(format!("{path}: element <{na}> vs <{nb}>"));
            }
            if ca.len() != cb.len() {
                return Some(format!("{path}/{na}: {} children vs {}", ca.len(), cb.len()));
            }
            for (x, y) in ca.iter().zip(cb.iter()) {
                if let Some(d) = tree_diff(x, y, &format!("{path}/{na}")) {
                    return Some(d);
                }
            }
            None
        }
        _ => Some(format!("{path}: text vs element")),
    }
}

/// Sort runs of sibling elements called `name` by their text (for lists that have no order).
pub fn sort_siblings(n: &mut Node, name: &str) {
    if let Node::Elem { children, .. } = n {
        for c in children.iter_mut() {
            sort_siblings(c, name);
        }
        let mut i = 0;
        while i < children.len() {
            let cur = match &children[i] {
                Node::Elem { name: nn, .. } if name == "*" || nn == name => Some(nn.clone()),
                _ => None,
            };
            if let Some(cur) = cur {
                let is = |c: &Node| matches!(c, Node::Elem { name: nn, .. } if *nn == cur);
                let mut j = i;
                while j < children.len() && is(&children[j]) {
                    j += 1;
                }
                children[i .. j].sort_by_key(|c| format!("{c:?}"));
                i = j;
            } else {
                i += 1;
            }
        }
    }
}

/// Stable sort of every element's children by element name: object members have no
/// order (the tool's JSON maps may iterate in any order), repeated elements keep theirs.
pub fn sort_children_by_name(n: &mut Node) {
    if let Node::Elem { children, .. } = n {
        for c in children.iter_mut() {
            sort_children_by_name(c);
        }
        children.sort_by(|a, b| {
            let key = |x: &Node| match x {
                Node::Elem { name, .. } => name.clone(),
                Node::Text(_) => String::new(),
            };
            key(a).cmp(&key(b))
        });
    }
}

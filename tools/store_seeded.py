#!/usr/bin/env python3
"""Copies confirmed, independently written changes from a scratch area into /verif/seeded/<id>/
(patch.diff, the demonstration, meta.json)."""
import json, os, shutil, sys, glob, re
src_root, eval_file, confirm_file, tag = sys.argv[1:5]   # e.g. /tmp/mut /tmp/mut/eval_all.out /tmp/mut/confirm_all.jsonl r1
evals = {}
for l in open(eval_file):
    m = re.match(r"## (C\d+) (\d) (.*)", l)
    if m:
        evals[(m.group(1), int(m.group(2)))] = [x for x in m.group(3).strip().split('|') if x]
confirmed = {}
for l in open(confirm_file):
    l = l.strip()
    if l.startswith('{'):
        r = json.loads(l)
        confirmed[(r['id'], r['n'])] = r
for (pid, n), res in sorted(evals.items()):
    c = confirmed.get((pid, n))
    if not c or not (c['demo_passes_without'] and c['applies'] and c['demo_fails_with'] and c['suite_flag'] == 0):
        print("not confirmed, skipped:", pid, n, c)
        continue
    out = f"/verif/seeded/{pid}-{tag}-{n}"
    os.makedirs(out, exist_ok=True)
    base = f"{src_root}/{pid}/OUT"
    shutil.copy(f"{base}/patch{n}.diff", f"{out}/patch.diff")
    adapted = os.path.exists(f"{base}/patch{n}_original.diff")
    if adapted:
        shutil.copy(f"{base}/patch{n}_original.diff", f"{out}/patch_as_written.diff")
    os.makedirs(f"{out}/demo", exist_ok=True)
    for f in glob.glob(f"{base}/demo{n}/*"):
        shutil.copy(f, f"{out}/demo/")
    try:
        meta = json.load(open(f"{base}/meta{n}.json"))
    except Exception:
        meta = {}
    caught = [r for r in res if 'exit=1' in r]
    meta_out = {
        "property": pid,
        "summary": meta.get("summary", ""),
        "needs": meta.get("needs", ""),
        "files": meta.get("files", []),
        "written_by": "independent sub-agent given only the property text and a scratch worktree of /repo (nothing from /verif)",
        "authors_run": meta.get("ran", ""),
        "adapted": "the patch as written no longer applied after later fix: commits to the same lines; patch.diff is the same change re-made on the current code, patch_as_written.diff the original" if adapted else None,
        "confirmed_by_me": {
            "how": "tools/confirm_mutant.sh in the scratch worktree at /repo's HEAD: demonstration alone passes; patch applies; cargo test --workspace --offline passes with the patch (demonstration moved aside); demonstration fails with the patch",
            "demo_passes_without": c['demo_passes_without'], "patch_applies": c['applies'], "existing_suite_passes_with": c['suite_flag'] == 0, "demo_fails_with": c['demo_fails_with'],
        },
        "checks_run_against_it": res,
        "caught": bool(caught),
    }
    json.dump(meta_out, open(f"{out}/meta.json", "w"), indent=1, ensure_ascii=False)
    print("stored", out, "caught" if caught else "MISSED")

#!/bin/bash
# tools/determinism.sh [seeds...]: the determinism proof on a larger sample than the per-run self-test:
# for every claimed property and every seed, N cases are run twice, once by 1 worker process and once
# spread over 16, and the per-case event-log hashes and verdicts are compared. Writes reports/determinism.txt.
cd /verif
seeds=${@:-1 2 3 5 8 13 21 34}
mkdir -p reports
out=reports/determinism.txt
echo "# determinism: per-case event-log hash + verdict, 1 worker vs 16 workers, different processes" > $out
echo "# $(git -C /repo rev-parse --short HEAD) /repo, $(git rev-parse --short HEAD) /verif" >> $out
bad=0
for p in C01 C02 C03 C04 C05 C06 C07 C08 C09 C10 C11 C12 C13 C14 C15 C16 C18 C19; do
  case $p in C19) n=200;; C08) n=300;; C14|C18) n=2000;; *) n=20000;; esac
  for s in $seeds; do
    r=$(RUST_BACKTRACE=0 gdsim/target/release/gdsim selftest --prop $p --seed $s --n $n --workers 16 2>&1 | tail -1)
    cmp=$(echo "$r" | jq -r '.cases_run_twice' 2>/dev/null); mm=$(echo "$r" | jq -r '.mismatches' 2>/dev/null)
    echo "$p seed=$s cases_run_twice=$cmp mismatches=$mm" >> $out
    [ "$mm" = "0" ] || { bad=1; echo "$r" >> $out; }
  done
done
echo "result: $([ $bad = 0 ] && echo 'no mismatch' || echo 'MISMATCH')" >> $out
tail -1 $out
exit $bad

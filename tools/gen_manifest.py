#!/usr/bin/env python3
"""Regenerates /verif/MANIFEST.json from the table below (kept in one place so that the
manifest stays valid while checks are added)."""
import json, subprocess, os
V = os.path.dirname(os.path.dirname(os.path.abspath(__file__)))
props = [json.loads(l) for l in open(os.path.join(V, 'properties.jsonl'))]

SIM = "deterministic simulation with fault injection: "
TRUST = "trusts: the simulated OS socket model for the behaviours socket.rs relies on; the reference models named in the evidence assumptions; "
claimed = {
 "C01": ("exploration", "hostile-server simulation: seeded reply scripts x entry points x settings; panic / abort / hang oracle with process watchdog",
         "Seeded search over hostile reply scripts (damaged valid replies, damaged recordings of what a reference-model server really sent in a valid conversation of the same call, contradictory index / count / last-packet fields across a multi-packet reply, header + random bytes, random bytes, bzip2 and gzip bombs, abusive HTTP framing served to the real HTTP client; io errors, short writes, TCP segmentation) consumed by the real conversation of every public entry point on a simulated OS and network; a multi-process runner catches aborts, stack overflows and CPU hangs. The space of reply scripts is unbounded, so a clean batch is evidence, not proof.",
         "4.C01", TRUST + "finite read timeouts; every crate built with overflow-checks=on"),
 "C02": ("exploration", "fault-free simulation against a spec-derived reference-model A2S server; field-for-field equality with differential attribution",
         "Seeded search over server states in the specification's domain and transport encodings (0-3 challenge rounds, Source / GoldSrc split with random fragment boundaries, bzip2-compressed split from a python-built pool, answer ids over the whole 31-bit range, the protocol-7 size-field quirk) against a reference-model A2S server written from the Valve wiki; the oracle is field-for-field equality of valve::query and of the per-game response, with differential re-runs attributing a failure to decoding or to transport.",
         "4.C02", TRUST + "compressed split replies come from a pool built by python3 bz2 (no bzip2 encoder offline in Rust); the model checks that its own encoding of the pool state is byte-identical to what python compressed"),
 "C03": ("exploration", "simulated Minecraft host speaking each of the 32 variant subsets; exact status, auto-detect order and probe log oracle",
         "All 32 subsets of {Java, Bedrock, 1.6, 1.4, b1.8} a host may speak are enumerated against 12 entry points; status values, the manifestation of unspoken variants (silent, close, garbage, wrong variant, refused / black-holed TCP) and TCP segmentation are drawn from the seed; oracle: exact status, first answering variant and its label, AutoQuery iff none answers, and the probe sequence read from the connection log.",
         "4.C03", TRUST + "wiki.vg formats; legacy request literals code-derived"),
 "C04": ("exploration", "fault-free simulation against reference-model GameSpy 1/2/3 servers; complete-decode oracle incl. unused entries and query_vars",
         "Seeded search over GameSpy 1/2/3 server states and transports (GS1 1-7 parts, GS3 challenge handshake and 1-7 splitnum packets with continuation offsets) against reference-model servers; oracle: every named field, every player and team, unused entries exactly the rest, query_vars exactly the pairs sent.",
         "4.C04", TRUST + "formats reference-derived (node-gamedig / public descriptions)"),
 "C05": ("exploration", "fault-free simulation against a reference-model Quake status server",
         "Seeded search over Quake 1/2/3 status replies (either key spelling or both, 0-64 player lines and up to 200 in replies far above the MTU, quoted / unquoted names, names with spaces, names with a quote of their own at an edge, optional address) against a reference-model server; oracle: named variables, one player per line with its fields, online count == lines, everything else in unused entries.",
         "4.C05", TRUST + "a double quote inside a name only at its edges and without spaces (the engines do not allow quotes in names at all)"),
 "C06": ("exploration", "fault-free simulation against a reference-model Unreal 2 server; every length-byte value swept in both encodings",
         "Every length-byte value 0-255 is swept at 5 string positions in both encodings (incl. 0x1b, the UCS-2 flag and the stray 0x01 byte), the rest of the state (colour escapes, control codes, 1-6 datagrams per list, repeated keys, bots) is drawn from the seed; oracle: numeric fields exact, strings exactly as sent minus colour/control codes, rules multimap, mutator set, every player once, bot iff ping 0.",
         "4.C06", TRUST + "string format per node-gamedig readUnrealString; 0x7f-0x9f not generated"),
 "C07": ("exploration", "fault-free simulation against models of the seven single-game protocols (Eco over a real HTTP/1.1 exchange through the vendored HTTP client, and at the HttpClient seam)",
         "Seeded search over well-formed replies of Frontlines, Savage 2, JC2M, Mindustry, The Ship, Battalion 1944 and Eco; oracle: field-for-field equality with the model incl. Battalion override rules and reported-vs-listed player counts.",
         "4.C07", TRUST + "FFOW, Savage 2, JC2M player block and Eco JSON are code-derived golden layouts; the HTTP client is ureq 2.12.1 with its TcpStream and Instant swapped for the simulator's (vendor/ureq)"),
 "C08": ("fault_enumeration", "enumeration of network delivery schedules: all permutations of 2-5 fragments (200 sampled at 6) and every single duplication, vs in-order delivery",
         "For each multi-datagram response (Valve Source / GoldSrc split, GameSpy 1 parts, GameSpy 3 splitnum packets, Unreal 2 lists) the simulated network delivers the same fragments in every order (exhaustive for n <= 5, 200 sampled orders at n = 6) and with every single-fragment duplication at every position, plus sampled combinations of both; Valve answers also bzip2-compressed; oracle: equal to the in-order result (duplication: equal or an error).",
         "4.C08", TRUST + "in-order decoding is owned by C02/C04/C06 (cases whose baseline fails are skipped and counted)"),
 "C09": ("exploration", "wire-history oracle over simulated conversations: transmissions == the protocol's requests, right address, challenge echoed, nothing else",
         "Seeded conversations of every protocol and game module with challenge-issuing model servers; the first Valve challenge is enumerated over the 625 byte-class strata {00,0A,41,FF,other}^4, GameSpy 3 challenges over all i32 classes; the oracle reads only the recorded history: every transmission is the specified request (fixed bytes, session id, framing, host / protocol-version fields, big-endian port), addressed to the caller's IP and the given or golden default port, challenge echoed byte for byte, nothing extra.",
         "4.C09", TRUST + "default ports: golden snapshot of the definitions table plus documented module defaults; legacy / FFOW / Savage 2 request literals code-derived"),
}
extra = json.load(open(os.path.join(V, 'tools', 'manifest_extra.json'))) if os.path.exists(os.path.join(V, 'tools', 'manifest_extra.json')) else {}
for k, v in extra.items():
    claimed[k] = tuple(v)

checks = []
for pid in sorted(claimed):
    cat, tech, text, ref, note = claimed[pid]
    checks.append({
        "property_id": pid,
        "quick_cmd": f"./check {pid} quick",
        "thorough_cmd": f"./check {pid} thorough",
        "evidence_file": f"/verif/evidence/{pid}.json",
        "replay_cmd_template": f"./check {pid} --replay {{path}}",
        "engine": "gdsim",
        "level_claimed": {"category": cat, "text": text, "design_ref": ref},
        "level_note": note,
        "technique": SIM + tech,
    })
na = []
for p in props:
    if p['id'] in claimed:
        continue
    if p['id'] == 'C17':
        na.append({"property_id": "C17", "reason": "pure functions of (bytes, operation sequence): no schedule, clock, fault or peer for a simulator to own; deciding it needs exhaustive input testing, a different technique (DESIGN.md section 5); its wire-visible consequences are covered by C01, C03 and C09"})
    elif p['id'] == 'C20':
        na.append({"property_id": "C20", "reason": "the id-naming checker is a pure function of a list of strings; no I/O, time or concurrency for a simulator to control (DESIGN.md section 5)"})
    else:
        na.append({"property_id": p['id'], "reason": "check under construction in this round (planned per DESIGN.md section 4); not claimed until its command exists"})
hooks = subprocess.run(["git", "-C", "/repo", "log", "--format=%h %s"], capture_output=True, text=True).stdout.splitlines()
hook_commits = [l.split()[0] for l in hooks if 'verif hook' in l]
m = {
    "version": 1,
    "setup_cmd": "./check --build",
    "hooks": {
        "guard": "--cfg gamedig_verif (rustc cfg flag; no cargo feature, Cargo.toml and Cargo.lock untouched)",
        "enable": "RUSTFLAGS=--cfg gamedig_verif through /verif/gdsim/.cargo/config.toml (and /verif/clisim); both crates depend on /repo/crates/lib by path, so every check rebuilds gamedig from /repo's working tree. Outside /repo: the two simulator crates patch the dependency ureq to /verif/vendor/ureq (ureq 2.12.1 with std::net::TcpStream and std::time::Instant swapped for /verif/vendor/verif_net); /repo's Cargo.toml and Cargo.lock are untouched",
        "baseline_off_cmd": "cd /repo && (cargo nextest run --workspace --no-fail-fast --test-threads 8 --offline || cargo test --workspace --no-fail-fast --offline)",
        "source_commits": hook_commits,
        "add_only": True,
    },
    "engines": [{"name": "gdsim", "path": "/verif/gdsim", "serves_properties": sorted(claimed), "kind_free_text": "single-process discrete-event simulator (virtual clock, simulated OS socket API, simulated network, reference-model and hostile servers) running the real blocking gamedig client; one seed -> one decision tape -> one exactly repeatable execution; multi-process runner with abort / CPU-hang watchdog, tape minimiser, replay files"}],
    "checks": checks,
    "not_applicable": na,
    "notes": "Exit codes of every check: 0 held (KNOWN-FINDING lines allowed, listed in /verif/known_findings.json), 1 violation (VIOLATION property=<id> replay=<path>), 2 harness error. VERIF_SEED selects the seed (default 1).",
}
json.dump(m, open(os.path.join(V, 'MANIFEST.json'), 'w'), indent=1)
print("claimed:", sorted(claimed), "not applicable:", [x['property_id'] for x in na])

#!/usr/bin/env python3
"""Regenerates the tables of DESIGN.md sections 9.1, 9.2 and 11 from known_findings.json, the
/repo log and seeded/*/meta.json."""
import json, glob, os, re, subprocess
V = os.path.dirname(os.path.dirname(os.path.abspath(__file__)))
s = open(f"{V}/DESIGN.md").read()
kf = json.load(open(f"{V}/known_findings.json"))
def put(s, name, body):
    a = s.index(f"<!-- {name}-BEGIN -->") + len(f"<!-- {name}-BEGIN -->\n")
    b = s.index(f"<!-- {name}-END -->")
    return s[:a] + body + s[b:]
rows = ["| property | commit | repair |", "|---|---|---|"]
for f in kf["fixed"]:
    m = re.match(r"fixed: property=(C\d+) (\w+) (.*)", f)
    rows.append(f"| {m.group(1)} | `{m.group(2)}` | {m.group(3)} |")
s = put(s, "FIXED-TABLE", "\n".join(rows) + "\n")
rows = ["| property | signature | what fails |", "|---|---|---|"]
for f in sorted(kf["findings"], key=lambda x: x["property"]):
    rows.append(f"| {f['property']} | `{f['signature']}` | {f['what']} |")
s = put(s, "FINDINGS-TABLE", "\n".join(rows) + "\n")
rows = ["| seeded change | what it does / what it needs | caught by (signatures) | note |", "|---|---|---|---|"]
for d in sorted(glob.glob(f"{V}/seeded/*/meta.json")):
    m = json.load(open(d))
    name = os.path.basename(os.path.dirname(d))
    caught = "; ".join(r.replace("exit=1 ", "").strip() for r in m.get("checks_run_against_it", []) if "exit=1" in r)
    if not caught:
        caught = "**not caught**: " + "; ".join(m.get("checks_run_against_it", []))
    summ = (m.get("summary", "") or "").replace("|", "\\|").replace("\n", " ")
    needs = (m.get("needs", "") or "").replace("|", "\\|").replace("\n", " ")
    note = (m.get("history") or "") + (" " + m["adapted"] if m.get("adapted") else "") + (" OBSOLETE: " + m["obsolete"] if m.get("obsolete") else "")
    rows.append(f"| `{name}` | {summ[:260]} — needs: {needs[:200]} | {caught[:260].replace('|', chr(92)+'|')} | {note.replace('|', chr(92)+'|')} |")
s = put(s, "SEEDED-TABLE", "\n".join(rows) + "\n")
open(f"{V}/DESIGN.md", "w").write(s)
print("tables regenerated")

#!/bin/bash
# tools/eval_mutant.sh <patch> <check ids...>: apply a seeded change to /repo, run the given quick checks, undo it.
patch=$1; shift
cd /repo || exit 3
[ -z "$(git status --porcelain)" ] || { echo "REPO-NOT-CLEAN"; exit 3; }
git apply --check "$patch" 2>/dev/null || { echo "PATCH-DOES-NOT-APPLY $patch"; exit 3; }
git apply "$patch"
cd /verif
for id in "$@"; do
  out=$(./check $id quick 2>&1); code=$?
  sig=$(echo "$out" | grep -A1 "^VIOLATION" | grep signature | head -3 | sed 's/ *signature: //' | tr '\n' ';')
  echo "$id exit=$code $sig"
done
git -C /repo checkout -q -- .

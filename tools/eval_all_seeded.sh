#!/bin/bash
# tools/eval_all_seeded.sh [out]: apply every stored seeded change to /repo in turn, run its property's
# quick check (and, where that does not fire, the checks recorded as catching it), undo it.
# Writes one line per change: "<dir> <check> exit=<code> <signatures>|..."
out=${1:-/verif/seeded/RECHECK.txt}
cd /verif
: > $out
for d in seeded/C*/; do
  k=$(basename $d); id=${k%%-*}
  others=$(python3 - "$d" "$id" <<'PY'
import json,sys
m=json.load(open(sys.argv[1]+'/meta.json'))
ids=[]
for r in m.get('checks_run_against_it',[]):
    r=r.strip()
    if 'exit=1' in r:
        c=r.split()[0]
        if c!=sys.argv[2] and c not in ids: ids.append(c)
print(' '.join(ids))
PY
)
  res=$(tools/eval_mutant.sh /verif/$d/patch.diff $id 2>&1 | tr '\n' '|')
  if ! echo "$res" | grep -q "exit=1"; then
    for o in $others; do res="$res$(tools/eval_mutant.sh /verif/$d/patch.diff $o 2>&1 | tr '\n' '|')"; done
  fi
  echo "$k $res" | cut -c1-400 >> $out
done
echo "finished" >> $out

#!/bin/bash
# tools/confirm_mutant.sh <Cxx> <n>: confirm an independently written change in its scratch worktree:
# (1) the demonstration passes on the current /repo HEAD, (2) the change applies, builds, the existing
# tests pass, (3) the demonstration fails with the change. Prints one JSON line.
root=${MUT_ROOT:-/tmp/mut2}; id=$1; n=$2; wt=$root/$id; out=$wt/OUT
export CARGO_TARGET_DIR=$root/target CARGO_NET_OFFLINE=true RUST_BACKTRACE=0
head=$(git -C /repo rev-parse HEAD)
git -C $wt checkout -q -- . ; git -C $wt checkout -q --detach $head 2>/dev/null
rm -f $wt/crates/lib/tests/demo_* $wt/crates/cli/tests/demo_* 2>/dev/null
demos=""
for f in $out/demo$n/*.rs; do
  b=$(basename $f .rs)
  if grep -q "gamedig_cli\|CARGO_BIN_EXE" $f; then mkdir -p $wt/crates/cli/tests; cp $f $wt/crates/cli/tests/; demos="$demos cli:$b"; else cp $f $wt/crates/lib/tests/; demos="$demos lib:$b"; fi
done
run_demos() { local ok=0; for d in $demos; do pkg=${d%%:*}; t=${d##*:}; if [ $pkg = cli ]; then p=gamedig_cli; else p=gamedig; fi; (cd $wt && cargo test --offline -q -p $p --test $t >$root/demo_$id$n.log 2>&1) || ok=1; done; return $ok; }
run_demos; before=$?
applies=0; (cd $wt && git apply $out/patch$n.diff 2>$root/apply_$id$n.log) || { (cd $wt && git apply --3way $out/patch$n.diff 2>>$root/apply_$id$n.log) || applies=1; }
suite=2; after=2
if [ $applies = 0 ]; then
  # the existing suite, without the demonstration files
  mkdir -p $root/hold_$id$n; mv $wt/crates/lib/tests/demo_* $wt/crates/cli/tests/demo_* $root/hold_$id$n/ 2>/dev/null
  (cd $wt && cargo test --offline -q --workspace --no-fail-fast >$root/suite_$id$n.log 2>&1) && suite=0 || suite=1
  for f in $root/hold_$id$n/*.rs; do if grep -q "gamedig_cli\|CARGO_BIN_EXE" $f; then cp $f $wt/crates/cli/tests/; else cp $f $wt/crates/lib/tests/; fi; done
  rm -rf $root/hold_$id$n
  run_demos; after=$?
fi
(cd $wt && git checkout -q -- . )
echo "{\"id\":\"$id\",\"n\":$n,\"demo_passes_without\":$([ $before = 0 ] && echo true || echo false),\"applies\":$([ $applies = 0 ] && echo true || echo false),\"demo_fails_with\":$([ $after = 1 ] && echo true || echo false),\"suite_flag\":$suite}"

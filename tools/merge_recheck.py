#!/usr/bin/env python3
"""tools/merge_recheck.py <sample files...>: rewrite seeded/RECHECK.txt - one line per stored change: the
result of re-applying it to the final tree where a sample file has it, else the line already recorded,
else the checks recorded in its meta.json when it was stored."""
import json, os, sys, glob, re
root = '/verif/seeded'
old = {}
for l in open(f'{root}/RECHECK.txt'):
    if l.startswith('#') or not l.strip() or l.startswith('finished'):
        continue
    k = l.split()[0]
    old[k] = l.rstrip('\n')
fresh = {}
for f in sys.argv[1:]:
    for l in open(f):
        if l.startswith('finished') or not l.strip():
            continue
        fresh[l.split()[0]] = l.rstrip('\n').rstrip('|') + '| (re-applied to the final tree)'
lines = ['# every stored seeded change against the checks: "(re-applied to the final tree)" = applied to /repo again after the last change to the checks (a 2-in-5 sample of all rounds); the others as recorded earlier (rounds 1-3 re-applied after round 6, rounds 4-9 as evaluated when stored)']
missed = 0
for d in sorted(glob.glob(f'{root}/C*/')):
    k = os.path.basename(d.rstrip('/'))
    if k in fresh:
        line = fresh[k]
    elif k in old:
        line = old[k]
    else:
        m = json.load(open(d + 'meta.json'))
        line = k + ' ' + '|'.join(m.get('checks_run_against_it', [])) + ' (as evaluated when stored)'
    if 'exit=1' not in line and 'OBSOLETE' not in line and 'obsolete' not in line:
        missed += 1
        print('NOT CAUGHT:', line[:200])
    lines.append(line[:500])
open(f'{root}/RECHECK.txt', 'w').write('\n'.join(lines) + '\n')
print(len(lines) - 1, 'changes,', len(fresh), 're-applied to the final tree,', missed, 'without a catching check')

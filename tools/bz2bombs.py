#!/usr/bin/env python3
"""Builds gdsim/data/bz2bombs.json: bzip2 streams of N zero bytes (a few hundred bytes each) for the
hostile compressed split replies of C01 / C13. Deterministic."""
import bz2, json, os, zlib
out = []
for mib in (1, 20, 70, 200):
    n = mib << 20
    comp = bz2.compress(b"\0" * n, 9)
    crc = 0
    block = b"\0" * (1 << 20)
    for _ in range(mib):
        crc = zlib.crc32(block, crc)
    out.append({"len": n, "crc32": crc & 0xffffffff, "bz2_hex": comp.hex()})
    print(mib, "MiB ->", len(comp), "bytes")
path = os.path.join(os.path.dirname(os.path.dirname(os.path.abspath(__file__))), "gdsim", "data", "bz2bombs.json")
json.dump(out, open(path, "w"))

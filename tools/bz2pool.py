#!/usr/bin/env python3
"""Builds gdsim/data/bz2pool.json: A2S_RULES / A2S_PLAYER replies with their bzip2-compressed form and
CRC32, for the compressed split transport of the Valve reference model (no bzip2 encoder is available
offline in Rust; python's bz2 is deterministic). Deterministic: fixed seed."""
import bz2, json, random, struct, zlib, os
rnd = random.Random(20261001)
ALPH = "abcdefghijklmnopqrstuvwxyzABCDEFGHIJKLMNOPQRSTUVWXYZ0123456789 _-.:[]()!#$%&*+,/;<=>?@^`{|}~'\"éßøЖя中文日本ñü€☃✓🎮"
def s(maxlen):
    n = rnd.choice([0, 1, 2, 5, 12, maxlen]) if rnd.random() < 0.5 else rnd.randint(0, maxlen)
    return "".join(rnd.choice(ALPH) for _ in range(n))
entries = []
for i in range(96):
    kind = "rules" if i % 3 else "players"
    if kind == "rules":
        n = rnd.choice([0, 1, 3, 20, 80, 300]) if i % 2 else rnd.randint(0, 400)
        rules, seen = [], set()
        for j in range(n):
            k = s(24)
            if k in seen or k == "Test":
                k = f"{k}_{j}"
            seen.add(k)
            rules.append([k, s(40)])
        payload = b"\xff\xff\xff\xff\x45" + struct.pack("<H", len(rules))
        for k, v in rules:
            payload += k.encode() + b"\0" + v.encode() + b"\0"
        state = {"rules": rules}
    else:
        n = rnd.choice([0, 1, 8, 64, 255])
        players = []
        for j in range(n):
            players.append([j & 0xff, s(24), rnd.randint(-2**31, 2**31 - 1), rnd.randint(0, 2**32 - 1) & 0x7f7fffff])
        payload = b"\xff\xff\xff\xff\x44" + struct.pack("<B", len(players))
        for idx, name, score, dur in players:
            payload += struct.pack("<B", idx) + name.encode() + b"\0" + struct.pack("<iI", score, dur)
        state = {"players": players}
    comp = bz2.compress(payload, rnd.choice([1, 9]))
    entries.append({"kind": kind, **state, "payload_hex": payload.hex(), "bz2_hex": comp.hex(), "crc32": zlib.crc32(payload) & 0xffffffff})
out = os.path.join(os.path.dirname(os.path.dirname(os.path.abspath(__file__))), "gdsim", "data", "bz2pool.json")
json.dump(entries, open(out, "w"), ensure_ascii=False)
print(len(entries), "entries,", os.path.getsize(out), "bytes")

#!/bin/bash
# tools/eval_sample_seeded.sh <out> <step> [offset]: as eval_all_seeded.sh, for every <step>-th stored change
# (sorted by name, starting at <offset>): apply it to /repo, run its property's quick check (and, where that
# does not fire, the checks recorded as catching it), undo it.
out=${1:?out}; step=${2:-5}; off=${3:-0}
cd /verif
: > $out
i=0
for d in seeded/C*/; do
  i=$((i+1))
  [ $(( (i + off) % step )) = 0 ] || continue
  k=$(basename $d); id=${k%%-*}
  others=$(python3 - "$d" "$id" <<'PY'
import json,sys
m=json.load(open(sys.argv[1]+'/meta.json'))
ids=[]
for r in m.get('checks_run_against_it',[]):
    r=r.strip()
    if 'exit=1' in r:
        c=r.split()[0]
        if c!=sys.argv[2] and c not in ids: ids.append(c)
print(' '.join(ids))
PY
)
  res=$(tools/eval_mutant.sh /verif/$d/patch.diff $id 2>&1 | tr '\n' '|')
  if ! echo "$res" | grep -q "exit=1"; then
    for o in $others; do res="$res$(tools/eval_mutant.sh /verif/$d/patch.diff $o 2>&1 | tr '\n' '|')"; done
  fi
  echo "$k $res" | cut -c1-400 >> $out
done
echo "finished" >> $out

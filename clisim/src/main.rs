//! clisim — the real gamedig command-line tool on the simulator backend.
//!
//! `mod real` is crates/cli/src/main.rs verbatim (every line of it runs:
//! `Cli::parse()` reads the real argv, stdout / stderr / exit status are those
//! of a real process). Only this 30-line process entry is a stub: it installs
//! the simulated world described by the file named in VERIF_CLI_SCENARIO.

use std::process::ExitCode;

#[allow(dead_code, unused_imports, clippy::all)]
mod real {
    include!("/repo/crates/cli/src/main.rs");

    pub fn run() -> Result<()> { main() }
}

thread_local! {
    static WORLD: std::cell::RefCell<Option<std::rc::Rc<std::cell::RefCell<gdsim::world::World>>>> = const { std::cell::RefCell::new(None) };
}

fn main() -> ExitCode {
    if let Ok(path) = std::env::var("VERIF_CLI_SCENARIO") {
        match std::fs::read(&path).map_err(|e| e.to_string()).and_then(|b| gdsim::props::c19::world_from_scenario_file(&b)) {
            Ok(world) => {
                let rc = std::rc::Rc::new(std::cell::RefCell::new(world));
                gamedig::verif_hook::install(Box::new(gdsim::world::SimBackend(rc.clone())));
                // the HTTP client's transport and clock (vendor/ureq) lead to the same world
                gdsim::install_http_transport(Box::new(gdsim::world::SimBackend(rc.clone())));
                // and so do sleeps
                gdsim::sleephook::set_world(Some(rc.clone()));
                WORLD.with(|w| *w.borrow_mut() = Some(rc));
            }
            Err(e) => {
                eprintln!("HARNESS-ERROR clisim: bad scenario file {path}: {e}");
                return ExitCode::from(99);
            }
        }
    }
    // what `fn main() -> Result<()>` does in the real binary
    let result = real::run();
    // for the wire oracle of the parent: what the tool transmitted (destination, bytes)
    if let (Ok(path), Some(rc)) = (std::env::var("VERIF_CLI_SENDS"), WORLD.with(|w| w.borrow().clone())) {
        let sends: Vec<(String, String)> = rc.borrow().client_sends().into_iter().map(|(to, d)| (to.to_string(), d.iter().map(|b| format!("{b:02x}")).collect())).collect();
        let _ = std::fs::write(path, serde_json::to_vec(&sends).unwrap_or_default());
    }
    match result {
        Ok(()) => ExitCode::SUCCESS,
        Err(e) => {
            eprintln!("Error: {e:?}");
            ExitCode::FAILURE
        }
    }
}

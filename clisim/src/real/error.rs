// The command-line tool's own error type, unchanged.
include!("/repo/crates/cli/src/error.rs");
